package rules

// Bounded stand-in for C03 and C05 (labelled bounded, never counted as proved).
// Injected into package rules with `go test -overlay` by `govc check`; nothing
// is written to the repository.  It runs the REAL functions (NewNetworkRule,
// matchPattern, the regexp engine, findShortcut / findRegexpShortcut) on every
// pattern and every string of a small alphabet up to a stated length, and
// compares them with a reference written from the documentation of the mask
// syntax (C03) resp. with the shortcut containment requirement (C05).

import (
	"fmt"
	"os"
	"strconv"
	"strings"
	"testing"
)

func zzEnvInt(name string, def int) int {
	if v, err := strconv.Atoi(os.Getenv(name)); err == nil && v > 0 {
		return v
	}
	return def
}

func zzWords(alpha string, maxLen int, f func(string)) {
	var rec func(prefix []byte)
	rec = func(prefix []byte) {
		f(string(prefix))
		if len(prefix) == maxLen {
			return
		}
		for i := 0; i < len(alpha); i++ {
			rec(append(prefix, alpha[i]))
		}
	}
	rec(nil)
}

func zzIsSep(c byte) bool {
	switch {
	case c >= 'a' && c <= 'z', c >= 'A' && c <= 'Z', c >= '0' && c <= '9':
		return false
	case c == '_', c == '-', c == '.', c == '%':
		return false
	}
	return true
}

// zzBody: does body match u[j:] with the match ending anywhere (mustEnd=false) or at the end of u?
// '*' any string, '^' one separator character or the end of the address, everything else a literal
// compared case-insensitively.
var zzMatchCase bool

func zzBody(body, u string, j int, mustEnd bool) bool {
	if body == "" {
		return !mustEnd || j == len(u)
	}
	switch c := body[0]; c {
	case '*':
		for k := j; k <= len(u); k++ {
			if zzBody(body[1:], u, k, mustEnd) {
				return true
			}
		}
		return false
	case '^':
		if j < len(u) && zzIsSep(u[j]) && zzBody(body[1:], u, j+1, mustEnd) {
			return true
		}
		// "or the end of the address"
		return j == len(u) && zzBody(body[1:], u, j, mustEnd)
	default:
		if j < len(u) && (u[j] == body[0] || (!zzMatchCase && strings.EqualFold(u[j:j+1], body[:1]))) {
			return zzBody(body[1:], u, j+1, mustEnd)
		}
		return false
	}
}

func zzHostChar(c byte) bool {
	// (compared case-insensitively, like the rest of the pattern)
	if c >= 'A' && c <= 'Z' {
		return !zzMatchCase // the class in the documentation is lower-case; other rules compare case-insensitively
	}
	return c >= 'a' && c <= 'z' || c >= '0' && c <= '9' || c == '-' || c == '_' || c == '.'
}

// zzRef: the documented language of a basic (non-regex) pattern.
func zzRef(p, u string) bool {
	if p == "" || p == "|" || p == "||" || p == "*" {
		return true
	}
	start := 0 // 0: anywhere, 1: start of string, 2: start of address
	switch {
	case strings.HasPrefix(p, "||"):
		start, p = 2, p[2:]
	case strings.HasPrefix(p, "|"):
		start, p = 1, p[1:]
	}
	mustEnd := false
	if strings.HasSuffix(p, "|") {
		mustEnd, p = true, p[:len(p)-1]
	}
	switch start {
	case 1:
		return zzBody(p, u, 0, mustEnd)
	case 2:
		// scheme "://" then optionally any number of subdomain labels ending with a dot
		for _, sch := range []string{"http://", "https://", "ws://", "wss://"} {
			if !(strings.HasPrefix(u, sch) || (!zzMatchCase && len(u) >= len(sch) && strings.EqualFold(u[:len(sch)], sch))) {
				continue
			}
			at := len(sch)
			if zzBody(p, u, at, mustEnd) {
				return true
			}
			for k := at; k < len(u) && zzHostChar(u[k]); k++ {
				if u[k] == '.' && k > at && zzBody(p, u, k+1, mustEnd) {
					return true
				}
			}
		}
		return false
	}
	for j := 0; j <= len(u); j++ {
		if zzBody(p, u, j, mustEnd) {
			return true
		}
	}
	return false
}

func TestZZVerifBounded(t *testing.T) {
	plen := zzEnvInt("VERIF_BOUND_PLEN", 4)
	ulen := zzEnvInt("VERIF_BOUND_ULEN", 5)
	prop := os.Getenv("VERIF_BOUND_PROP")
	const maskAlpha = "abB.*^|/"
	const urlAlpha = "aB./:"
	prefixes := []string{"", "http://", "https://a.", "ws://b.a.", "ftp://"}

	var urls []string
	zzWords(urlAlpha, ulen, func(s string) { urls = append(urls, s) })
	var tails []string
	zzWords(urlAlpha, ulen-2, func(s string) { tails = append(tails, s) })

	evals, nontrivial, viol := 0, 0, 0
	perKind := map[string]int{}
	report := func(kind, pattern, url, detail string) {
		viol++
		perKind[kind]++
		if perKind[kind] <= 3 {
			fmt.Printf("BOUNDED-VIOLATION prop=%s kind=%s pattern=%q url=%q %s\n", prop, kind, pattern, url, detail)
		}
	}
	var curURLs []string
	check := func(pattern string, regexRule bool, matchCase bool) {
		text := pattern
		if matchCase {
			text += "$match-case"
		}
		f, err := NewNetworkRule(text, 0)
		if err != nil || f == nil {
			return
		}
		if f.IsRegexRule() != regexRule {
			return
		}
		zzMatchCase = matchCase
		if prop == "C03" && !regexRule {
			// the only rewriting the constructor may do: one trailing "/*" becomes "^"
			want := pattern
			if strings.HasSuffix(want, "/*") {
				want = want[:len(want)-2] + "^"
			}
			if f.pattern != want {
				report("stored-pattern", pattern, "", fmt.Sprintf("stored=%q expected=%q", f.pattern, want))
			}
		}
		accepted := 0
		try := func(u string) {
			evals++
			req := &Request{URL: u, URLLowerCase: strings.ToLower(u), RequestType: TypeOther}
			real := f.matchPattern(req)
			if real {
				accepted++
			}
			if prop == "C05" && real && !f.Match(req) {
				// no other modifier is present: only the shortcut pre-check can have rejected it
				kind := "precheck-mask"
				if regexRule {
					kind = "precheck-regex"
				}
				if !(regexRule && !strings.Contains(strings.ToLower(u), f.Shortcut)) { // (regex classes are reported below)
					report(kind, text, u, fmt.Sprintf("shortcut=%q pattern accepts, Match rejects", f.Shortcut))
				}
			}
			switch prop {
			case "C03":
				// (the constructor rewrites a trailing "/*" to "^" - "example.org/*" is meant to cover
				// "example.org" itself, too; the reference is applied to the pattern that gets compiled)
				ref := zzRef(f.pattern, u)
				if ref != real {
					report("language", text, u, fmt.Sprintf("compiled=%q code=%v documented=%v", f.pattern, real, ref))
				} else if full := f.Match(req); full != ref {
					// the rule as a whole (no other modifier present) must accept the same language as its pattern
					report("rule-language", text, u, fmt.Sprintf("compiled=%q Match=%v documented=%v", f.pattern, full, ref))
				}
			case "C05":
				if real && !strings.Contains(strings.ToLower(u), f.Shortcut) {
					kind := "shortcut-mask"
					if regexRule {
						kind = "shortcut-regex"
						switch {
						case strings.Contains(pattern, "|"):
							kind = "shortcut-regex-alternation"
						case strings.Contains(pattern, "\\d"):
							kind = "shortcut-regex-class"
						case strings.Contains(pattern, "*"):
							kind = "shortcut-regex-star"
						}
					}
					report(kind, pattern, u, fmt.Sprintf("shortcut=%q", f.Shortcut))
				}
			}
		}
		if strings.HasPrefix(pattern, "||") {
			for _, pre := range prefixes {
				for _, tl := range tails {
					try(pre + tl)
				}
			}
		} else {
			for _, u := range curURLs {
				try(u)
			}
		}
		if accepted > 0 && accepted < len(curURLs) {
			nontrivial++
		}
	}
	curURLs = urls
	zzWords(maskAlpha, plen, func(p string) {
		if isRegexPattern(p) {
			return
		}
		check(p, false, false)
		if len(p) <= plen-1 {
			check(p, false, true) // $match-case
		}
	})
	// characters that are operators of the regular-expression syntax must be plain literals in a basic pattern
	const specialAlpha = "a2{}+?()[]$\\."
	var surls []string
	zzWords(specialAlpha, 3, func(s string) { surls = append(surls, s) })
	curURLs = surls
	zzWords(specialAlpha, 3, func(p string) {
		if isRegexPattern(p) || strings.Contains(p, "$") && !strings.HasSuffix(p, "\\$") && strings.Contains(p, "$") {
			// "$" starts the modifier list of a rule text unless escaped: leave those to the parser
			if strings.Contains(p, "$") {
				return
			}
		}
		check(p, false, false)
	})
	curURLs = urls
	if prop == "C05" {
		// regular-expression rules: /re/ over a small operator alphabet
		zzWords("ab|.\\d*", plen, func(re string) {
			if re == "" || strings.HasSuffix(re, "\\") {
				return
			}
			check("/"+re+"/", true, false)
		})
	}
	for k, n := range perKind {
		fmt.Printf("BOUNDED-KIND prop=%s kind=%s count=%d\n", prop, k, n)
	}
	fmt.Printf("BOUNDED prop=%s plen=%d ulen=%d evaluations=%d nontrivial_patterns=%d violations=%d\n", prop, plen, ulen, evals, nontrivial, viol)
}
