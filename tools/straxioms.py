#!/usr/bin/env python3
"""Exhaustive bounded validation of the string facts assumed as axioms in
/repo/rules/verif_contracts.go (C04:str-*).  Not part of any check: the axioms
are listed as unchecked assumptions in the evidence; this script is the reason
we believe them.  Alphabet {'.','a','b'}, |h|<=7, |w|<=3, |t|<=2."""
import itertools
A='.ab'
def strs(n):
    for l in range(n+1):
        for t in itertools.product(A,repeat=l): yield ''.join(t)
H=list(strs(7)); W=list(strs(3)); T=list(strs(2))
bad=0
for h in H:
    for w in W:
        for t in T:
            # str-suffix-of-suffix
            if h.endswith(w+t) and not h.endswith(t): bad+=1
            # str-prefix-of-cat
            if h==w+t and not h.startswith(w): bad+=1
            # str-prefilter
            if h.endswith('.'+w+t) and len(w)>0 and not h.startswith('.'):
                if not (h.startswith(w) or (h.find(w)>0 and h.find('.'+w)>0)): bad+=1
print("violations:",bad)
raise SystemExit(1 if bad else 0)
