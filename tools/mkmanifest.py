#!/usr/bin/env python3
"""Regenerates /verif/MANIFEST.json from the claim table below."""
import json, subprocess
props=[json.loads(l) for l in open('/verif/properties.jsonl')]
ids=[p['id'] for p in props]

TB="trusted: go/ssa (x/tools v0.29.0) translation, the SMT solvers, the assumed contracts of /verif/contracts/stdlib.contracts that the evidence lists, len<=cap<2^48, sequential semantics"

claims={
 "C07":dict(level="proof",
   text="IsHigherPriority is proved equal, for all field valuations of both rules, to the lexicographic specification hp (class, $redirect, specific-over-generic, modifier count); irreflexivity, asymmetry, transitivity, transitivity of incomparability and class-first are proved as lemmas over hp, so the relation is a strict weak order for every rule, not for a pool of samples.",
   note=TB+"; popcount is the sum of the bits (math/bits.OnesCount assumed equal to it).",
   ref="5 C07", tech="contract-based deductive verification: WP over go/ssa + SMT portfolio; lemmas on the spec function"),
 "C08":dict(level="proof",
   text="negatesBadfilter is proved equal to the structural twin relation over every semantic field of NetworkRule; removeBadfilterRules is proved, with loop invariants over fold-style spec functions and for any slice length and any number of $badfilter rules, to return exactly the members of its input that are neither $badfilter rules nor twins of one, never more elements than it was given, without writing to its input.",
   note=TB+"; reflect.DeepEqual and slices.Equal enter as assumed contracts (structural equality); fold congruences and induction lemmas are themselves discharged obligations.",
   ref="5 C08", tech="contract-based deductive verification: loop invariants, fold congruence lemmas by induction, SMT portfolio"),
 "C16":dict(level="proof",
   text="GetCosmeticOption is proved equal to the specification 'All minus the union of what each exception modifier disables' for all 2^64 option masks (hence all 2^9 subsets of the property) and for absent / non-exception basic rules; shrinking and monotonicity are lemmas over the specification.",
   note=TB, ref="5 C16", tech="contract-based deductive verification: WP over go/ssa, QF_BV obligations"),
}
reasons={}
for i in ids:
    if i not in claims:
        reasons[i]="check not built yet (work in progress; planned contracts are in DESIGN.md section 5)"

checks=[]
for i in ids:
    if i in claims:
        c=claims[i]
        checks.append({"property_id":i,
          "quick_cmd":f"/verif/bin/govc check --prop {i} --tier quick",
          "thorough_cmd":f"/verif/bin/govc check --prop {i} --tier thorough",
          "evidence_file":f"/verif/evidence/{i}.json",
          "replay_cmd_template":"/verif/bin/govc replay {path}",
          "engine":"govc",
          "level_claimed":{"category":c["level"],"text":c["text"],"design_ref":c["ref"]},
          "level_note":c["note"],
          "technique":c["tech"]})
hooks=subprocess.run("git -C /repo log --format=%h --grep='^verif:'",shell=True,capture_output=True,text=True).stdout.split()
m={"version":1,
 "setup_cmd":"make -C /verif build",
 "hooks":{"guard":"verif","enable":"govc loads /repo with -tags=verif; the only hook files are the comment-only contract files */verif_contracts.go (//go:build verif)","baseline_off_cmd":"cd /repo && go test -vet=off -count=1 ./...","source_commits":hooks,"add_only":True},
 "engines":[{"name":"govc","path":"/verif/govc","serves_properties":sorted(claims),"kind_free_text":"self-built deductive verifier for Go: contracts (//@ comments in guarded files) -> weakest-precondition VCs over go/ssa -> z3 4.8.12 / z3 5.1.0 / cvc5 1.0 portfolio; counterexample replay via go test -overlay"}],
 "checks":checks,
 "notes":"See DESIGN.md. exit 0 = all claimed obligations discharged; exit 1 + VIOLATION line = a claimed obligation failed or is undecided; exit 2 = harness error (contract cannot be bound, vacuous precondition).",
 "not_applicable":[{"property_id":i,"reason":reasons[i]} for i in ids if i in reasons]}
json.dump(m,open('/verif/MANIFEST.json','w'),indent=1)
print("claimed:",sorted(claims))
