#!/usr/bin/env python3
"""Regenerates /verif/MANIFEST.json from the claim table below."""
import json, subprocess
props=[json.loads(l) for l in open('/verif/properties.jsonl')]
ids=[p['id'] for p in props]

TB="trusted: go/ssa (x/tools v0.29.0) translation, the SMT solvers, the assumed contracts of /verif/contracts/stdlib.contracts that the evidence lists, len<=cap<2^48, sequential semantics"

claims={
 "C07":dict(level="proof",
   text="IsHigherPriority is proved equal, for all field valuations of both rules, to the lexicographic specification hp (class, $redirect, specific-over-generic, modifier count); irreflexivity, asymmetry, transitivity, transitivity of incomparability and class-first are proved as lemmas over hp, so the relation is a strict weak order for every rule, not for a pool of samples.",
   note=TB+"; popcount is the sum of the bits (math/bits.OnesCount assumed equal to it).",
   ref="5 C07", tech="contract-based deductive verification: WP over go/ssa + SMT portfolio; lemmas on the spec function"),
 "C08":dict(level="proof",
   text="negatesBadfilter is proved equal to the structural twin relation over every semantic field of NetworkRule; removeBadfilterRules is proved, with loop invariants over fold-style spec functions and for any slice length and any number of $badfilter rules, to return exactly the members of its input that are neither $badfilter rules nor twins of one, never more elements than it was given, without writing to its input.",
   note=TB+"; reflect.DeepEqual and slices.Equal enter as assumed contracts (structural equality); fold congruences and induction lemmas are themselves discharged obligations.",
   ref="5 C08", tech="contract-based deductive verification: loop invariants, fold congruence lemmas by induction, SMT portfolio"),
 "C04":dict(level="proof",
   text="NetworkRule.Match is proved equal to the conjunction 'shortcut contained AND third-party flag AND content-type masks AND $denyallow AND $domain AND $dnstype AND $ctag AND $client AND pattern', where each modifier conjunct is a specification written from the documentation as an order-free statement (existential membership over the value lists; exclude-before-include precedence; 0 = all/none for the type masks). Proved for all rules and requests: the type-mask conjunct in QF_BV; the $dnstype conjunct with loop invariants over the two lists; the $ctag conjunct including correctness of the sorted-merge intersection (requires sortedness, which loadCTags is proved to establish and the request side carries as the documented precondition); the include/exclude precedence of $domain, $denyallow, $client, $ctag. Because the list conjuncts are existential over list elements, value order cannot matter.",
   note=TB+"; ATOMS whose meaning is the result of one helper and which are NOT further specified here: anyDomain (isDomainOrSubdomainOfAny: subdomain / wildcard-TLD semantics of one domain list), hasClient (clients.containsAny), patternOK (matchPattern: the compiled pattern applied to URL or hostname - its language is C03) and the substring test 'contains'. Unchecked assumption: a rule reaching Match has sorted tag lists (justified by the proved postcondition of NewNetworkRule/loadOption, the only writers of those fields).",
   ref="5 C04", tech="contract-based deductive verification: WP over go/ssa, loop invariants, SMT portfolio"),
 "C13":dict(level="proof",
   text="Per-call purity obligations: (1) every field of the pooled rules.Request handed to the engines is proved to be overwritten with a function of the DNS request only - the field list is enumerated through go/types, so a field added later without a reset fails an obligation; (2) frames: removeBadfilterRules, removeDNSRewriteRules, NewMatchingResult, GetDNSBasicRule, DNSRewritesAll, DNSRewrites, the table lookups and the engine queries are proved to write nothing outside fresh memory, the rule cache and a rule's lazily compiled regex pair (e.g. rules[:i:i] must force append to reallocate); (3) the rule cache is proved monotone: an entry once present is never changed or dropped, a hit returns the stored rule, only non-nil rules of the requested index are inserted; results of DNSRewrites live in fresh memory (earlier results cannot be altered).",
   note=TB+"; the final induction over query histories (each step preserves the invariants, hence answers do not depend on history) is a paper argument on top of these per-call obligations and is not machine-checked; identity is 'same rule texts', not pointer equality.",
   ref="5 C13", tech="contract-based deductive verification: frame (assigns) obligations, per-field postconditions enumerated from go/types"),
 "C19":dict(level="proof",
   text="Under a fault model in which every list retrieval may fail at every call (the contract of RuleList.RetrieveRule promises nothing on error), the lookups are proved crash-free (a retrieved rule is dereferenced only after its nil test; all index/nil/type-assertion obligations discharged) and sound: every rule returned by ShortcutsTable/DomainsTable/SeqScanTable.MatchAll and NetworkEngine.MatchAll satisfies the Match specification for the request, so results under faults are a subset of the fault-free results; the rule cache is proved monotone (rules already materialised keep being served: a cache hit returns the stored rule with a nil error) and never to receive a nil rule.",
   note=TB+"; what the OS does with a closed descriptor is the assumed contract of os.File.Seek/Read (an error); DNS host-rule lookup is covered for crash-freedom and well-formedness of returned rules, its soundness (rule.Match(hostname)) belongs to C02.",
   ref="5 C19", tech="contract-based deductive verification: demonic fault model in the interface contract, loop invariants, SMT portfolio"),
 "C06":dict(level="proof",
   text="NewMatchingResult and GetDNSBasicRule are proved, for any slice lengths and any order, to select a basic rule that is (a) a member of the effective rules (not disabled by a $badfilter twin, not a $badfilter rule, not a $dnsrewrite rule, not a cookie/replace/csp/stealth rule, and for blocking rules not suppressed by an effective $urlblock / $genericblock document exception of the referrer), (b) nil exactly when there is no such candidate, and (c) not outranked by any candidate, hence of maximal verdict class; the document-level flags are proved equal to order-free existential statements over the referrer rules, so the verdict class cannot depend on rule order or list split. GetBasicResult is proved equal to its three-way specification.",
   note=TB+"; callee contracts used: removeBadfilterRules, removeDNSRewriteRules, IsHigherPriority (all discharged under C08/C07); Engine.MatchRequest / NetworkEngine.Match compose MatchAll with these and are not yet under contract.",
   ref="5 C06", tech="contract-based deductive verification: loop invariants, induction lemmas, SMT portfolio"),
 "C09":dict(level="proof",
   text="DNSRewritesAll, matchException, removeMatchingException and DNSRewrites are proved for any number and any positions of rewrites and exceptions: the result contains no exception rule, and a rule is in the result iff it is a non-exception rewrite of the DNS result that no exception of the result disables, where 'disables' is the documented relation (empty-valued exception: all non-important rewrites, all rewrites if itself important; valued exception: same new CNAME, or same response code and for successful responses same record type and structurally equal value; non-important exceptions never disable important rewrites). The result lives in fresh memory; res.NetworkRules is not written.",
   note=TB+"; slices.DeleteFunc enters as an assumed contract (stable in-place filter, parameterised by the contract of the closure passed to it) and reflect.DeepEqual as structural equality; the relative order of surviving rules is NOT part of the proved postcondition (membership only).",
   ref="5 C09", tech="contract-based deductive verification: loop invariants over fold specs, closure contracts, SMT portfolio"),
 "C12":dict(level="proof",
   text="Crash-freedom sweep: every function of packages rules, filterutil, lookup, filterlist and the root package (network engine, DNS engine, DNS rewrites; 200+ functions, with or without a functional contract) is verified against the generated safety obligations - index and slice bounds with symbolic lengths, nil dereferences, nil-map writes, failed type assertions, division by zero, explicit panics and int overflow - using thin contracts (non-nil pointer arguments, data invariants of the engine structures, frames) that are themselves checked at every call site; the constructors are proved to return either an error and nil, or a rule whose text and list id are the ones given.",
   note=TB+"; NOT covered: the cosmetic engine (its obligations are filed under C15, not yet claimed), package initialisers, termination, panics inside library code (regexp, publicsuffix, netip are assumed total), and the 'inert lines do not change results' half of the property (needs the scanner contracts of C11). Two overflow obligations are assumptions (scanner position and rule counters below 2^62), listed in the evidence.",
   ref="5 C12", tech="contract-based deductive verification: zero/thin-annotation safety sweep, WP over go/ssa, SMT portfolio"),
 "C10":dict(level="proof",
   text="Every $dnsrewrite loader and every registered record-type handler is proved to return either an error with a nil rewrite or a rewrite satisfying the published shape predicate (CNAME carries nothing else; a record type only with RCODE success; dynamic type of the value determined by the record type; PTR values end in a dot), for all input strings; each handler is checked against the contract of the handler function type under the key it is registered with in the package initialiser, and the dispatch in loadDNSRewriteNormal uses only that contract. All index, slice, nil and type-assertion obligations of these functions are discharged (no crash).",
   note=TB+"; netip.ParseAddr/Is4, strconv.ParseUint, dns.Fqdn, strings.Split enter as assumed contracts; the key set of dnsRewriteRRHandlers is read from the package initialiser and the map is checked syntactically never to be written elsewhere.",
   ref="5 C10", tech="contract-based deductive verification: WP over go/ssa, function-type contract with refinement obligations"),
 "C02":dict(level="proof",
   text="DNSEngine.MatchRequest is proved, for every engine state satisfying the data invariants and every request: (1) an empty name yields an empty, unmatched result; (2) every reported network rule satisfies the Match specification of C04 for the request the engine builds (a document request for http://<name> without a source, carrying the client data, record type and sorted tags of the DNS request - each field of the pooled request is proved equal to that function of the DNS request); (3) NetworkRule is the basic rule of NetworkRules in the sense of C06/C07/C08 (an effective, non-special member that no other candidate outranks; nil iff there is none or a $replace rule is present); (4) if it is non-nil the result is matched and no hosts-file rule is consulted or returned; (5) otherwise every rule in HostRulesV4/HostRulesV6 is a host rule having the queried name among its names (the re-check after the hash hit: collisions of the 32-bit hash never add a rule), filed under V4 iff its address is IPv4; every host rule already materialised in the storage cache under an index stored for hash(name) and naming the host is returned; (6) matched is true iff a basic rule or a host entry was found. IsHostLevelNetworkRule is proved equal to its specification; HostRule.Match is proved equal to membership of the name; FastHash to the djb2 fold.",
   note=TB+"; NOT proved (needs the index invariants of C01, not built): completeness of the network-rule lookup (that every matching host-level rule of the lists is reported) and that lookupTable holds an index for every name of every scanned host rule (the construction side of the hosts table); completeness of the hosts answer is therefore proved relative to the table content and to rules materialised in the cache (an unreadable list may legitimately drop the others, C19). Sortedness of the request's client tags is a precondition (documented on the field).",
   ref="5 C02", tech="contract-based deductive verification: WP over go/ssa, loop invariants, two-state cache monotonicity, SMT portfolio"),
 "C20":dict(level="proof",
   text="findBodyInjectionIndex is proved (loop invariant, any body length) to return the first position inside the inspected prefix - the first min(16384, len) characters - at which one of the four markers occurs case-insensitively, or -1 when there is none; filterHTML is proved to publish, on success, a body equal to the transcoding of T when there is no injection point and of T[:i] + tag + T[i:] at the injection point i otherwise (T = the decompressed body transcoded from Latin-1; exactly one splice, nothing dropped or duplicated), a ContentLength equal to the length of that new body and no Content-Encoding header; all slice/index/nil obligations of the three functions are discharged.",
   note=TB+"; gzip and the Latin-1 codec (proxyutil.ReadDecompressedBody/DecodeLatin1/EncodeLatin1), bytes.NewReader, io.NopCloser, Header.Del, strings.EqualFold and math.Min are assumed contracts that only NAME their results through ghost functions; that the codec maps each original byte to one character and back (so that the statement about T is the statement about the original bytes, and the 16 KiB window is measured on T) is the documented behaviour of the codec and is not machine-checked; floats are mathematical reals; the tag is whatever buildInjectionCode returns (named, not specified). filterHTML's precondition (a response with a body and a header map) is the caller's obligation (onResponse is not under contract).",
   ref="5 C20", tech="contract-based deductive verification: WP over go/ssa, loop invariant, ghost functions for library values, SMT portfolio"),
 "C16":dict(level="proof",
   text="GetCosmeticOption is proved equal to the specification 'All minus the union of what each exception modifier disables' for all 2^64 option masks (hence all 2^9 subsets of the property) and for absent / non-exception basic rules; shrinking and monotonicity are lemmas over the specification.",
   note=TB, ref="5 C16", tech="contract-based deductive verification: WP over go/ssa, QF_BV obligations"),
}
reasons={}
for i in ids:
    if i not in claims:
        reasons[i]="check not built yet (work in progress; planned contracts are in DESIGN.md section 5)"

checks=[]
for i in ids:
    if i in claims:
        c=claims[i]
        checks.append({"property_id":i,
          "quick_cmd":f"/verif/bin/govc check --prop {i} --tier quick",
          "thorough_cmd":f"/verif/bin/govc check --prop {i} --tier thorough",
          "evidence_file":f"/verif/evidence/{i}.json",
          "replay_cmd_template":"/verif/bin/govc replay {path}",
          "engine":"govc",
          "level_claimed":{"category":c["level"],"text":c["text"],"design_ref":c["ref"]},
          "level_note":c["note"],
          "technique":c["tech"]})
hooks=subprocess.run("git -C /repo log --format=%h --grep='^verif:'",shell=True,capture_output=True,text=True).stdout.split()
m={"version":1,
 "setup_cmd":"make -C /verif build",
 "hooks":{"guard":"verif","enable":"govc loads /repo with -tags=verif; the only hook files are the comment-only contract files */verif_contracts.go (//go:build verif)","baseline_off_cmd":"cd /repo && go test -vet=off -count=1 ./...","source_commits":hooks,"add_only":True},
 "engines":[{"name":"govc","path":"/verif/govc","serves_properties":sorted(claims),"kind_free_text":"self-built deductive verifier for Go: contracts (//@ comments in guarded files) -> weakest-precondition VCs over go/ssa -> z3 4.8.12 / z3 5.1.0 / cvc5 1.0 portfolio; counterexample replay via go test -overlay"}],
 "checks":checks,
 "notes":"See DESIGN.md. exit 0 = all claimed obligations discharged; exit 1 + VIOLATION line = a claimed obligation failed or is undecided; exit 2 = harness error (contract cannot be bound, vacuous precondition).",
 "not_applicable":[{"property_id":i,"reason":reasons[i]} for i in ids if i in reasons]}
json.dump(m,open('/verif/MANIFEST.json','w'),indent=1)
print("claimed:",sorted(claims))
