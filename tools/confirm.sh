#!/bin/bash
# usage: confirm.sh <seeded-id>  -- re-confirm a seeded change in a scratch worktree: it applies, the suite passes with it,
# the demonstration fails with it and passes without it.  Updates meta.json "confirmed".
set -u
export GOFLAGS=-mod=mod GOPROXY=off GOSUMDB=off GOTOOLCHAIN=local
id=$1; D=/verif/seeded/$id
PKGDIR=$(python3 -c "import json;print(json.load(open('$D/meta.json')).get('demo_pkg_dir','.'))")
TNAME=$(python3 -c "import json;print(json.load(open('$D/meta.json')).get('demo_test_name',''))")
RACE=$(python3 -c "import json;m=json.load(open('$D/meta.json'));print('-race' if '-race' in json.dumps(m) else '')")
W=/tmp/seedchk-$id
git -C /repo worktree remove --force $W >/dev/null 2>&1
git -C /repo worktree add -q --detach $W HEAD || exit 2
cd $W
applies=no; suite=no; demofail=no; demopass=no
if git apply --check $D/patch.diff 2>/dev/null; then applies=yes; fi
if [ $applies = yes ]; then
  git apply $D/patch.diff
  if go build ./... >/dev/null 2>&1 && go test -vet=off -count=1 ./... >/tmp/seed-suite-$id.log 2>&1; then suite=yes; fi
  cp $D/demo_test.go $W/$PKGDIR/zz_seed_demo_test.go
  if ! (cd $W/$PKGDIR && go test $RACE -vet=off -count=1 -run "^${TNAME}\$" . >/tmp/seed-demo1-$id.log 2>&1); then demofail=yes; fi
  git checkout -q -- .
  if (cd $W/$PKGDIR && go test $RACE -vet=off -count=1 -run "^${TNAME}\$" . >/tmp/seed-demo2-$id.log 2>&1); then demopass=yes; fi
fi
cd /; git -C /repo worktree remove --force $W; rm -f /tmp/seed-*-$id.log
python3 - <<PY
import json
p='$D/meta.json'; m=json.load(open(p))
m['confirmed']={"patch_applies":"$applies","suite_passes_with_change":"$suite","demo_fails_with_change":"$demofail","demo_passes_without":"$demopass"}
json.dump(m,open(p,'w'),indent=1)
print("$id applies=$applies suite=$suite demofail=$demofail demopass=$demopass")
PY
