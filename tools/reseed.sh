#!/bin/bash
# usage: reseed.sh [seeded-id ...]  -- re-run the property check against already-confirmed seeded changes (must-fail corpus)
# applies each /verif/seeded/<id>/patch.diff to /repo, runs the quick check, undoes it, updates meta.json
set -u
if [ -n "$(git -C /repo status --porcelain)" ]; then echo "reseed.sh: /repo has uncommitted changes; commit them first"; exit 2; fi
cd /verif/seeded
ids=${@:-$(ls)}
miss=0
for id in $ids; do
  D=/verif/seeded/$id; P=${id%%-*}
  [ -f $D/patch.diff ] || continue
  if ! git -C /repo apply --check $D/patch.diff 2>/dev/null; then echo "$id patch no longer applies"; miss=1; continue; fi
  git -C /repo apply $D/patch.diff
  cp /verif/evidence/$P.json /tmp/evidence-$P.bak 2>/dev/null
  out=$(cd /verif && ./bin/govc check --prop $P --tier quick 2>&1); rc=$?
  git -C /repo checkout -- .
  cp /tmp/evidence-$P.bak /verif/evidence/$P.json 2>/dev/null; rm -f /tmp/evidence-$P.bak
  detected=no
  if [ $rc = 1 ] && echo "$out" | grep -q "^VIOLATION property=$P"; then detected=yes; else miss=1; fi
  echo "$out" | grep "obligation\|VIOLATION\|HARNESS\|^$P:" | head -12 > $D/check_output.txt
  python3 - <<PY
import json
m=json.load(open('$D/meta.json'))
m['detected_by_check']="$detected"; m['check_exit']=$rc
m['failed_obligations']=[l.strip() for l in open('$D/check_output.txt') if 'obligation' in l]
json.dump(m,open('$D/meta.json','w'),indent=1)
PY
  echo "$id detected=$detected"
done
exit $miss
