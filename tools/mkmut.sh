#!/bin/bash
# usage: mkmut.sh <prop>  -- prepare a scratch worktree and the prompt for a mutation sub-agent (nothing from /verif is visible there)
set -u
P=$1; D=/tmp/mut/$P
mkdir -p /tmp/mut
git -C /repo worktree remove --force $D >/dev/null 2>&1; rm -rf $D
git -C /repo worktree add -q --detach $D HEAD || exit 2
cd $D
git rm -q -f $(git ls-files | grep verif_contracts.go) && git -c user.name=x -c user.email=x@x commit -qm "scratch: drop contract files"
mkdir -p out && printf 'module out\n' > out/go.mod
python3 - <<PY
import json
p=[json.loads(l) for l in open('/verif/properties.jsonl') if json.loads(l)['id']=='$P'][0]
prop=p['title']+"\n\n"+p['statement']+"\n\nQuantification: "+p['quantifier']['text']
t=open('/verif/tools/mutant_prompt.tmpl').read().replace('@DIR@','$D').replace('@PROP@',prop).replace('@ID@','$P')
t+="\n\nNOTE: the directory $D/out already exists and contains a go.mod stub so that files under out/ are not part of the library module; keep it."
open('/tmp/mut/$P.prompt.txt','w').write(t)
PY
echo "worktree $D ; prompt /tmp/mut/$P.prompt.txt"
