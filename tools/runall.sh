#!/bin/bash
# runs every claimed quick check on the current tree (evidence is rewritten) and validates the evidence
cd /verif
fail=0
for p in $(python3 -c "import json;print(' '.join(c['property_id'] for c in json.load(open('MANIFEST.json'))['checks']))"); do
  out=$(./bin/govc check --prop $p --tier quick 2>&1); rc=$?
  echo "$out" | tail -1
  if [ $rc -ne 0 ]; then echo "  !! exit $rc"; echo "$out" | grep "obligation\|HARNESS" | head -5; fail=1; fi
done
python3-vt - <<'PY'
import json,jsonschema,glob
sch=json.load(open('/root/.vp/EVIDENCE.schema.json'))
m=json.load(open('/verif/MANIFEST.json'))
jsonschema.validate(m,json.load(open('/root/.vp/MANIFEST.schema.json')))
for c in m['checks']:
    e=json.load(open(c['evidence_file']))
    jsonschema.validate(e,sch)
    assert e["coverage"]["obligations"]==e["coverage"]["discharged"], c["property_id"]
print("manifest and evidence valid")
PY
[ $? -ne 0 ] && fail=1
if [ $fail = 0 ]; then echo "RUNALL: ALL OK"; else echo "RUNALL: FAILED"; fi
exit $fail
