#!/bin/bash
# usage: mustpass.sh [id ...] -- the must-PASS corpus: semantics-preserving edits of functions under contract
# (/verif/mustpass/<id>/patch.diff).  Each is applied to a scratch worktree of /repo's HEAD outside /repo and
# /verif (removed afterwards), the pinned tests of the touched package are run, and the property's quick check
# must exit 0 without a VIOLATION line.  /repo itself is not touched; the evidence file of the property is
# restored afterwards (it must describe /repo, not the scratch tree).
set -u
export GOFLAGS=-mod=mod GOPROXY=off GOSUMDB=off GOTOOLCHAIN=local
W=$(mktemp -d /tmp/mustpass.XXXXXX)
git -C /repo worktree add -q --detach $W/wt HEAD || exit 2
trap 'git -C /repo worktree remove --force $W/wt 2>/dev/null; rm -rf $W; git -C /repo worktree prune' EXIT
cd /verif/mustpass
ids=${@:-$(ls)}
bad=0
for id in $ids; do
  D=/verif/mustpass/$id
  [ -f $D/patch.diff ] || continue
  P=$(python3 -c "import json;print(json.load(open('$D/meta.json'))['property'])")
  git -C $W/wt checkout -q -- . 
  if ! git -C $W/wt apply $D/patch.diff 2>/dev/null; then echo "$id patch no longer applies"; bad=1; continue; fi
  pk=$(git -C $W/wt diff --name-only | xargs -n1 dirname | sort -u | sed 's|^|./|')
  if ! (cd $W/wt && go test -vet=off -count=1 $pk >/dev/null 2>&1); then echo "$id tests FAIL with the edit (not a harmless edit)"; bad=1; continue; fi
  cp /verif/evidence/$P.json $W/ev.bak 2>/dev/null
  out=$(cd /verif && ./bin/govc check --repo $W/wt --prop $P --tier quick 2>&1); rc=$?
  cp $W/ev.bak /verif/evidence/$P.json 2>/dev/null
  echo "$out" | grep "obligation\|VIOLATION\|HARNESS\|^$P:" | head -8 > $D/check_output.txt
  if [ $rc = 0 ] && ! echo "$out" | grep -q "^VIOLATION"; then v=pass; else v=ALARM; bad=1; fi
  python3 - <<PY
import json
m=json.load(open('$D/meta.json')); m['verdict']="$v"; m['check_exit']=$rc
m['alarms']=[l.strip() for l in open('$D/check_output.txt') if 'obligation' in l]
json.dump(m,open('$D/meta.json','w'),indent=1)
PY
  echo "$id ($P) $v"
done
exit $bad
