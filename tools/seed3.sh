#!/bin/bash
# usage: seed3.sh <prop> <k-src> <k-dst>  -- like seed.sh, but /repo is never touched: the check runs on a scratch worktree (govc --repo)
set -u
export GOFLAGS=-mod=mod GOPROXY=off GOSUMDB=off GOTOOLCHAIN=local
P=$1; KS=$2; K=$3; SRC=/tmp/mut/$P/out/$KS
DST=/verif/seeded/$P-$K
mkdir -p $DST
cp $SRC/patch.diff $SRC/demo_test.go $DST/ 2>/dev/null
cp $SRC/meta.json $DST/meta.agent.json 2>/dev/null
PKGDIR=$(python3 -c "import json;print(json.load(open('$SRC/meta.json')).get('demo_pkg_dir','.'))")
TNAME=$(python3 -c "import json;print(json.load(open('$SRC/meta.json')).get('demo_test_name',''))")
RACE=$(python3 -c "import json;m=json.load(open('$SRC/meta.json'));print('-race' if '-race' in json.dumps(m) else '')")
W=/tmp/seedchk-$P-$K
git -C /repo worktree remove --force $W >/dev/null 2>&1
git -C /repo worktree add -q --detach $W HEAD || exit 2
cd $W
applies=no; suite=no; demofail=no; demopass=no
if git apply --check $DST/patch.diff 2>/dev/null; then applies=yes; fi
if [ $applies = yes ]; then
  git apply $DST/patch.diff
  if go build ./... >/dev/null 2>&1 && go test -vet=off -count=1 ./... >/tmp/seed-suite-$P-$K.log 2>&1; then suite=yes; fi
  cp $DST/demo_test.go $W/$PKGDIR/zz_seed_demo_test.go
  if ! (cd $W/$PKGDIR && go test $RACE -vet=off -count=1 -run "^${TNAME}\$" . >/tmp/seed-demo1-$P-$K.log 2>&1); then demofail=yes; fi
  git checkout -q -- . 
  if (cd $W/$PKGDIR && go test $RACE -vet=off -count=1 -run "^${TNAME}\$" . >/tmp/seed-demo2-$P-$K.log 2>&1); then demopass=yes; fi
fi
detected=no; out=""; rc=0
rm -f $W/$PKGDIR/zz_seed_demo_test.go
if [ $applies = yes ]; then
  git apply $DST/patch.diff
  cp /verif/evidence/$P.json /tmp/evidence3-$P-$K.bak 2>/dev/null
  out=$(cd /verif && ${GOVC:-./bin/govc} check --repo $W --prop $P --tier quick 2>&1); rc=$?
  cp /tmp/evidence3-$P-$K.bak /verif/evidence/$P.json 2>/dev/null; rm -f /tmp/evidence3-$P-$K.bak
  if [ $rc = 1 ] && echo "$out" | grep -q "^VIOLATION property=$P"; then detected=yes; fi
  echo "$out" | grep "obligation\|VIOLATION\|HARNESS\|^$P:" | head -12 > $DST/check_output.txt
fi
cd /; git -C /repo worktree remove --force $W; rm -f /tmp/seed-*-$P-$K.log
python3 - <<PY
import json
a=json.load(open('$DST/meta.agent.json'))
m={"property":"$P","what_it_breaks":a.get("summary"),"needs":a.get("needs"),"demo_pkg_dir":"$PKGDIR","demo_test_name":"$TNAME",
 "confirmed":{"patch_applies":"$applies","suite_passes_with_change":"$suite","demo_fails_with_change":"$demofail","demo_passes_without":"$demopass"},
 "ran":["git worktree add (scratch, removed afterwards)","git apply patch.diff","go test -vet=off -count=1 ./...","go test -run $TNAME (with and without the change)","govc check --repo <scratch worktree with the change> --prop $P --tier quick"],
 "detected_by_check":"$detected","check_exit":$rc if "$applies"=="yes" else None,
 "failed_obligations":[l.strip() for l in open('$DST/check_output.txt') if 'obligation' in l] if "$applies"=="yes" else []}
json.dump(m,open('$DST/meta.json','w'),indent=1)
print("$P-$K applies=$applies suite=$suite demofail=$demofail demopass=$demopass detected=$detected")
PY
rm -f $DST/meta.agent.json
