package main

// Lock discipline (C14): ghost lock state and guarded-by obligations.
//
// A `guardedby Type.Field Mutex mode` directive says which mutex of the owning
// object protects a location:
//   rw         every load and store of the field needs the mutex (a read lock suffices for loads)
//   writeonce  every store needs the mutex held for writing and may only replace the zero value; a load needs
//              the mutex unless the value is already known to be non-zero (published under the lock earlier)
//   map        the field holds a map; reading it (lookup, range, len) needs the mutex, updating it the write lock
//   calls      the field holds an object whose methods are not thread-safe; passing the loaded value to a call
//              (as receiver or argument) needs the write lock
//
// Ghost state: per mutex kind a pair of boolean heaps "held for writing" / "held for reading"
// (by the current thread), all false at function entry; Lock/Unlock/RLock/RUnlock update them,
// every return must leave them as they were (balanced), so that calls can be treated as not
// changing the caller's lock state.

import (
	"fmt"
	"go/types"
	"strings"

	"golang.org/x/tools/go/ssa"
)

type Guard struct {
	Pkg, Type, Field, Mutex, Mode string
	File                          string
	Line                          int
}

func (w *World) guardFor(fa *ssa.FieldAddr) *Guard {
	pt, ok := types.Unalias(fa.X.Type()).Underlying().(*types.Pointer)
	if !ok {
		return nil
	}
	n, ok := types.Unalias(pt.Elem()).(*types.Named)
	if !ok || n.Obj().Pkg() == nil {
		return nil
	}
	st, ok := n.Underlying().(*types.Struct)
	if !ok {
		return nil
	}
	fname := st.Field(fa.Field).Name()
	for _, g := range w.cons.Guards {
		if g.Pkg == n.Obj().Pkg().Path() && g.Type == n.Obj().Name() && g.Field == fname {
			return g
		}
	}
	return nil
}

// lockKeys: the ghost heaps for the mutex named by guard g / by a lock operation.
func (w *World) lockHeaps(kind string) (wk, rk string) {
	wk, rk = "LKw:"+kind, "LKr:"+kind
	w.regHeap(wk, ArrSort(SInt, SBool), nil)
	w.regHeap(rk, ArrSort(SInt, SBool), nil)
	return
}

// guardMutex: the ghost heaps and the index of the mutex that guards an access to owner's field.
func (fr *frame) guardMutex(g *Guard, fa *ssa.FieldAddr, st *State) (wk, rk string, id *Term, ok bool) {
	owner := fr.get(fa.X)
	if owner.T == nil {
		return "", "", nil, false
	}
	n := types.Unalias(types.Unalias(fa.X.Type()).Underlying().(*types.Pointer).Elem()).(*types.Named)
	sty := n.Underlying().(*types.Struct)
	for i := 0; i < sty.NumFields(); i++ {
		f := sty.Field(i)
		if f.Name() != g.Mutex {
			continue
		}
		key := "F:" + typeStr(n) + "." + f.Name()
		if _, isPtr := types.Unalias(f.Type()).Underlying().(*types.Pointer); isPtr {
			wk, rk = fr.w.lockHeaps("ptr")
			hk := fr.w.regHeap(key, ArrSort(SInt, SInt), f.Type())
			return wk, rk, Select(st.heap.get(hk), owner.T), true
		}
		wk, rk = fr.w.lockHeaps(key)
		return wk, rk, owner.T, true
	}
	return "", "", nil, false
}

func (fr *frame) lockOblige(ins ssa.Instruction, st *State, what string, goal *Term) {
	name := fmt.Sprintf("lock/%s/%s:%s", fr.topName(), what, fr.exprText(ins.Pos(), "lock"))
	fr.vc.oblige("lock", name, []string{"C14"}, st.reach, goal, fr.pos(ins.Pos()))
}

// loadedGuardedField: v is `*(&owner.field)` of a guarded field.
func (fr *frame) loadedGuardedField(v ssa.Value) (*Guard, *ssa.FieldAddr) {
	u, ok := v.(*ssa.UnOp)
	if !ok {
		return nil, nil
	}
	fa, ok := u.X.(*ssa.FieldAddr)
	if !ok {
		return nil, nil
	}
	if g := fr.w.guardFor(fa); g != nil {
		return g, fa
	}
	return nil, nil
}

// lockChecks emits the guarded-by obligations of one instruction.
func (fr *frame) lockChecks(ins ssa.Instruction, st *State) {
	if fr.isDiscovery || len(fr.w.cons.Guards) == 0 {
		return
	}
	held := func(g *Guard, fa *ssa.FieldAddr, write bool) (*Term, bool) {
		wk, rk, id, ok := fr.guardMutex(g, fa, st)
		if !ok {
			return nil, false
		}
		if write {
			return Select(st.heap.get(wk), id), true
		}
		return Or(Select(st.heap.get(wk), id), Select(st.heap.get(rk), id)), true
	}
	switch x := ins.(type) {
	case *ssa.Store:
		if fa, ok := x.Addr.(*ssa.FieldAddr); ok {
			if g := fr.w.guardFor(fa); g != nil && (g.Mode == "rw" || g.Mode == "writeonce") {
				if h, ok := held(g, fa, true); ok {
					fr.lockOblige(ins, st, "store-needs-"+g.Mutex, h)
				}
				if g.Mode == "writeonce" {
					cur := fr.loadLoc(fr.get(fa).Loc, st, ins)
					if cur.T != nil {
						fr.lockOblige(ins, st, "write-once", Eq(cur.T, fr.w.zeroOfSort(cur.T.Sort)))
					}
				}
			}
		}
	case *ssa.UnOp:
		if fa, ok := x.X.(*ssa.FieldAddr); ok {
			if g := fr.w.guardFor(fa); g != nil && g.Mode == "rw" {
				if h, ok := held(g, fa, false); ok {
					fr.lockOblige(ins, st, "load-needs-"+g.Mutex, h)
				}
			}
			if g := fr.w.guardFor(fa); g != nil && g.Mode == "writeonce" {
				// a write-once field may be read without the mutex only when its value is already
				// known to be published (non-zero): that knowledge can only stem from an access under
				// the mutex - this thread's own, or a callee's reported through its contract
				if h, ok := held(g, fa, false); ok {
					cur := fr.loadLoc(fr.get(fa).Loc, st, ins)
					if cur.T != nil {
						fr.lockOblige(ins, st, "unlocked-load-of-unpublished-"+g.Field, Or(h, Not(Eq(cur.T, fr.w.zeroOfSort(cur.T.Sort)))))
					}
				}
			}
		}
	case *ssa.Lookup:
		if g, fa := fr.loadedGuardedField(x.X); g != nil && g.Mode == "map" {
			if h, ok := held(g, fa, false); ok {
				fr.lockOblige(ins, st, "map-read-needs-"+g.Mutex, h)
			}
		}
	case *ssa.Range:
		if g, fa := fr.loadedGuardedField(x.X); g != nil && g.Mode == "map" {
			if h, ok := held(g, fa, false); ok {
				fr.lockOblige(ins, st, "map-read-needs-"+g.Mutex, h)
			}
		}
	case *ssa.MapUpdate:
		if g, fa := fr.loadedGuardedField(x.Map); g != nil && g.Mode == "map" {
			if h, ok := held(g, fa, true); ok {
				fr.lockOblige(ins, st, "map-write-needs-"+g.Mutex, h)
			}
		}
	case *ssa.Call:
		c := x.Common()
		vals := append([]ssa.Value{}, c.Args...)
		if c.IsInvoke() {
			vals = append(vals, c.Value)
		}
		for _, a := range vals {
			if g, fa := fr.loadedGuardedField(a); g != nil {
				switch g.Mode {
				case "calls":
					if h, ok := held(g, fa, true); ok {
						fr.lockOblige(ins, st, "call-needs-"+g.Mutex, h)
					}
				case "map":
					// len(m) and passing the map on: a read
					if h, ok := held(g, fa, false); ok {
						fr.lockOblige(ins, st, "map-read-needs-"+g.Mutex, h)
					}
				}
			}
		}
	}
}

// lockOp: Lock/Unlock/RLock/RUnlock on a mutex value.
func (fr *frame) lockOp(full string, args []*Val, st *State, x ssa.Instruction) {
	if fr.isDiscovery || len(fr.w.cons.Guards) == 0 || len(args) == 0 {
		return
	}
	recv := args[0]
	var wk, rk string
	var id *Term
	switch {
	case recv.Loc != nil && recv.Loc.Ref != nil && strings.HasPrefix(recv.Loc.Key, "F:"):
		wk, rk = fr.w.lockHeaps(recv.Loc.Key)
		id = recv.Loc.Ref
	case recv.T != nil:
		wk, rk = fr.w.lockHeaps("ptr")
		id = recv.T
	default:
		fr.vc.note("lock operation on an untracked mutex in %s", relName(fr.fn))
		return
	}
	op := full[strings.LastIndex(full, ".")+1:]
	switch op {
	case "Lock":
		fr.lockOblige(x, st, "lock-not-held", And(Not(Select(st.heap.get(wk), id)), Not(Select(st.heap.get(rk), id))))
		st.heap = st.heap.set(wk, Store(st.heap.get(wk), id, True))
	case "Unlock":
		fr.lockOblige(x, st, "unlock-held", Select(st.heap.get(wk), id))
		st.heap = st.heap.set(wk, Store(st.heap.get(wk), id, False))
	case "RLock":
		fr.lockOblige(x, st, "lock-not-held", Not(Select(st.heap.get(wk), id)))
		st.heap = st.heap.set(rk, Store(st.heap.get(rk), id, True))
	case "RUnlock":
		fr.lockOblige(x, st, "unlock-held", Select(st.heap.get(rk), id))
		st.heap = st.heap.set(rk, Store(st.heap.get(rk), id, False))
	}
}

// lockEntry: nothing is held when a function starts.
func (fr *frame) lockEntry(st *State) {
	for _, k := range sortedKeys(fr.w.heapSort) {
		if strings.HasPrefix(k, "LKw:") || strings.HasPrefix(k, "LKr:") {
			x := Sym(freshBinder("m"), SInt)
			fr.vc.assume(True, Forall([]Binder{{x.Op, SInt}}, Not(Select(fr.entry.get(k), x)), []*Term{Select(fr.entry.get(k), x)}))
		}
	}
}

// lockExit: every return leaves the lock state as it was at entry.
func (fr *frame) lockExit(reach *Term, h *Heap) {
	if len(fr.w.cons.Guards) == 0 {
		return
	}
	for _, k := range sortedKeys(fr.w.heapSort) {
		if strings.HasPrefix(k, "LKw:") || strings.HasPrefix(k, "LKr:") {
			if h.get(k) == fr.entry.get(k) || k == ownKey {
				continue // (ownership of pooled objects may be handed to the caller: see the owned() builtin)
			}
			x := Sym(freshBinder("m"), SInt)
			fr.vc.oblige("lock", fmt.Sprintf("lock/%s/balanced:%s", relName(fr.fn), k), []string{"C14"}, reach,
				Forall([]Binder{{x.Op, SInt}}, Not(Select(h.get(k), x))), "")
		}
	}
}

// registerLockHeaps declares the ghost heaps of every guard up front, so that
// the entry assumption covers them.
func (w *World) registerLockHeaps() {
	if len(w.cons.Guards) > 0 {
		w.regHeap(ownKey, ArrSort(SInt, SBool), nil)
	}
	for _, g := range w.cons.Guards {
		t, err := w.resolveType(g.Type, g.Pkg)
		if err != nil {
			continue
		}
		n, ok := types.Unalias(t).(*types.Named)
		if !ok {
			continue
		}
		st, ok := n.Underlying().(*types.Struct)
		if !ok {
			continue
		}
		for i := 0; i < st.NumFields(); i++ {
			f := st.Field(i)
			if f.Name() != g.Mutex {
				continue
			}
			if _, isPtr := types.Unalias(f.Type()).Underlying().(*types.Pointer); isPtr {
				w.lockHeaps("ptr")
			} else {
				w.lockHeaps("F:" + typeStr(n) + "." + f.Name())
			}
		}
	}
}

// queryEntries: the operations an engine offers after construction.
var queryEntries = []string{
	"::(*Engine).MatchRequest", "::(*Engine).GetCosmeticResult",
	"::(*NetworkEngine).Match", "::(*NetworkEngine).MatchAll",
	"::(*DNSEngine).Match", "::(*DNSEngine).MatchRequest",
	"::(*CosmeticEngine).Match",
	"::(*DNSResult).DNSRewrites", "::(*DNSResult).DNSRewritesAll",
	"/rules::NewMatchingResult", "/rules::(*MatchingResult).GetBasicResult", "/rules::(*MatchingResult).GetCosmeticOption",
	"/rules::GetDNSBasicRule", "/rules::NewRequest", "/rules::NewRequestForHostname",
}

// queryReachable: every repository function reachable from the query entry
// points (static calls, closures, and interface calls resolved to every
// repository type that has the method).
func (w *World) queryReachable() []*ssa.Function {
	seen := map[*ssa.Function]bool{}
	var order []*ssa.Function
	var all []*ssa.Function
	for path := range w.spkgs {
		if strings.HasPrefix(path, modPath) {
			all = append(all, w.allFuncs(path)...)
		}
	}
	var visit func(fn *ssa.Function)
	visit = func(fn *ssa.Function) {
		if fn == nil || seen[fn] || len(fn.Blocks) == 0 || !w.inRepo(fn) {
			return
		}
		seen[fn] = true
		order = append(order, fn)
		for _, b := range fn.Blocks {
			for _, ins := range b.Instrs {
				if mc, ok := ins.(*ssa.MakeClosure); ok {
					if f, ok := mc.Fn.(*ssa.Function); ok {
						visit(f)
					}
				}
				ci, ok := ins.(ssa.CallInstruction)
				if !ok {
					continue
				}
				c := ci.Common()
				if c.IsInvoke() {
					for _, cand := range all {
						if cand.Name() == c.Method.Name() && cand.Signature.Recv() != nil &&
							types.Implements(cand.Signature.Recv().Type(), types.Unalias(c.Value.Type()).Underlying().(*types.Interface)) {
							visit(cand)
						}
					}
					continue
				}
				if f := c.StaticCallee(); f != nil {
					if o := f.Origin(); o != nil {
						f = o
					}
					visit(f)
				}
			}
		}
	}
	for _, e := range queryEntries {
		if fn := w.findFunc(modPath + e); fn != nil {
			visit(fn)
		}
	}
	return order
}

// sharedWriteAllowed: may a query write heap key k?  Only what a guard protects
// or what is declared thread-local.
func (w *World) sharedWriteAllowed(k string) bool {
	if strings.HasPrefix(k, "GH:") || strings.HasPrefix(k, "LK") || strings.HasPrefix(k, "L:") || strings.HasPrefix(k, "I:") {
		return true
	}
	for _, g := range w.cons.Guards {
		t, err := w.resolveType(g.Type, g.Pkg)
		if err != nil {
			continue
		}
		n, ok := types.Unalias(t).(*types.Named)
		if !ok {
			continue
		}
		st, ok := n.Underlying().(*types.Struct)
		if !ok {
			continue
		}
		if g.Mode == "threadlocal" {
			if strings.HasPrefix(k, "F:"+typeStr(n)+".") {
				return true
			}
			continue
		}
		for i := 0; i < st.NumFields(); i++ {
			f := st.Field(i)
			if f.Name() != g.Field {
				continue
			}
			switch g.Mode {
			case "rw", "writeonce":
				if k == "F:"+typeStr(n)+"."+f.Name() {
					return true
				}
			case "map":
				if m, ok := types.Unalias(f.Type()).Underlying().(*types.Map); ok {
					mv, mh := w.mapHeaps(m)
					if k == mv || k == mh {
						return true
					}
				}
			case "calls":
				if sl, ok := types.Unalias(f.Type()).Underlying().(*types.Slice); ok && k == w.elemHeap(sl.Elem()) {
					return true
				}
			}
		}
	}
	return false
}

// pool ownership: an object taken from a pool is owned by the taker until it is put back; putting back what is
// not owned (a second Put) would hand the same object to two takers.
const ownKey = "LKw:pool-owned"

func (fr *frame) poolGet(v *Val, st *State) {
	if fr.isDiscovery || len(fr.w.cons.Guards) == 0 || v == nil || v.T == nil {
		return
	}
	fr.w.regHeap(ownKey, ArrSort(SInt, SBool), nil)
	st.heap = st.heap.set(ownKey, Store(st.heap.get(ownKey), v.T, True))
}

func (fr *frame) poolPut(v *Val, st *State, x ssa.Instruction) {
	if fr.isDiscovery || len(fr.w.cons.Guards) == 0 || v == nil || v.T == nil {
		return
	}
	fr.w.regHeap(ownKey, ArrSort(SInt, SBool), nil)
	fr.lockOblige(x, st, "put-of-owned-object", Select(st.heap.get(ownKey), v.T))
	st.heap = st.heap.set(ownKey, Store(st.heap.get(ownKey), v.T, False))
}
