package main

// Query assembly and the solver portfolio.

import (
	"bytes"
	"context"
	"crypto/sha256"
	"fmt"
	"os"
	"os/exec"
	"path/filepath"
	"regexp"
	"sort"
	"strings"
	"sync"
	"time"
)

type Result struct {
	Obl      *Obl
	Status   string // discharged, failed, undecided, error
	Solver   string
	Time     float64
	Model    string
	Raw      map[string]string
	Query    string
	CacheHit bool
	vcReplay *replayInfo
	havoc    bool
}

var reStrLit = regexp.MustCompile(`\((?:mkstr|bytes) \(- (\d+)\) `)

// buildQuery renders the SMT-LIB script for one obligation.
var buildMu sync.Mutex

func (vc *VC) buildQuery(o *Obl) (string, error) {
	// term construction touches shared tables (spec signatures, binder counters)
	buildMu.Lock()
	defer buildMu.Unlock()
	w := vc.w
	var asserts []*Term
	asserts = append(asserts, vc.facts[:o.NFacts]...)
	asserts = append(asserts, o.Extra...)
	asserts = append(asserts, o.Guard)
	asserts = append(asserts, vc.used.facts...)
	var skDecls []string
	goal := skolemize(o.Goal, &skDecls)
	asserts = append(asserts, Not(goal))
	decls, unfold, err := w.specDecls(vc.used.specs, vc.reveal)
	if err != nil {
		return "", err
	}
	// fuel-bounded unfolding of recursive / revealed spec functions
	if len(unfold) > 0 {
		done := map[string]bool{}
		frontier := asserts
		for round := 0; round < vc.fuel; round++ {
			var next []*Term
			seen := map[*Term]bool{}
			for _, a := range frontier {
				w.collectAppsDeep(a, unfold, seen, map[string]bool{}, func(app *Term) {
					k := app.String()
					if done[k] {
						return
					}
					done[k] = true
					sig := unfold[app.Op]
					bs := w.specBinders(sig)
					m := map[string]*Term{}
					for i, b := range bs {
						m[b.Name] = app.Args[i]
					}
					inst := Eq(app, Subst(sig.body, m))
					next = append(next, inst)
				})
			}
			if len(next) == 0 {
				break
			}
			asserts = append(asserts, next...)
			frontier = next
		}
	}
	// abstract string values: length and byte views
	svSeen := map[string]*Term{}
	{
		seen := map[*Term]bool{}
		for _, a := range append(append([]*Term{}, asserts...), w.expandTransparent(asserts)...) {
			Walk(a, seen, func(t *Term) {
				if t.Op == "sv" && len(t.Args) == 1 {
					if !hasBound(t) {
						svSeen[t.String()] = t
					}
				}
			})
		}
	}
	var body strings.Builder
	for _, a := range asserts {
		if a.Op == "true" {
			continue
		}
		body.WriteString("(assert ")
		body.WriteString(a.String())
		body.WriteString(")\n")
	}
	vc.once.Do(func() { vc.congAx = w.congAxioms(vc) }) // may declare prefEq
	congAx := vc.congAx
	var sb strings.Builder
	sb.WriteString(w.prelude())
	for _, n := range vc.declO {
		sb.WriteString(vc.decl[n])
		sb.WriteString("\n")
	}
	for _, d := range decls {
		sb.WriteString(d)
		sb.WriteString("\n")
	}
	for _, d := range skDecls {
		sb.WriteString(d)
		sb.WriteString("\n")
	}
	for _, d := range vc.used.decls {
		sb.WriteString(d)
		sb.WriteString("\n")
	}
	for _, ax := range congAx {
		sb.WriteString(ax)
		sb.WriteString("\n")
	}
	// the entry heap is closed: what it stores was allocated at entry
	for _, n := range vc.declO {
		for key, hs := range w.heapSort {
			if n != heapSym(key, "0") {
				continue
			}
			gt := w.heapGoT[key]
			if gt == nil {
				continue
			}
			_, vs, isArr := hs.ArrParts()
			if !isArr {
				continue
			}
			al0, alA0 := heapSym(alKey, "0"), heapSym(alAKey, "0")
			switch {
			case strings.HasPrefix(key, "F:") && vs == SSlice:
				if _, ok := vc.decl[alA0]; ok {
					fmt.Fprintf(&sb, "(assert (forall ((r Int)) (! (and (or (= (sl.arr (select %s r)) 0) (select %s (sl.arr (select %s r)))) (>= (sl.arr (select %s r)) 0) (<= 0 (sl.off (select %s r))) (<= 0 (sl.len (select %s r))) (<= (sl.len (select %s r)) (sl.cap (select %s r))) (=> (= (sl.arr (select %s r)) 0) (and (= (sl.len (select %s r)) 0) (= (sl.cap (select %s r)) 0)))) :pattern ((select %s r)))))\n", n, alA0, n, n, n, n, n, n, n, n, n, n)
				}
			case strings.HasPrefix(key, "MV:"):
				// map values that are slices: their arrays were allocated at entry, too
				ks, inner, ok2 := vs.ArrParts()
				if ok2 && inner == SSlice {
					if _, ok := vc.decl[alA0]; ok {
						fmt.Fprintf(&sb, "(assert (forall ((m Int) (k %s)) (! (and (or (= (sl.arr (select (select %s m) k)) 0) (select %s (sl.arr (select (select %s m) k)))) (>= (sl.arr (select (select %s m) k)) 0) (<= 0 (sl.off (select (select %s m) k))) (<= 0 (sl.len (select (select %s m) k))) (<= (sl.len (select (select %s m) k)) (sl.cap (select (select %s m) k)))) :pattern ((select (select %s m) k)))))\n", ks, n, alA0, n, n, n, n, n, n, n)
					}
				}
			case strings.HasPrefix(key, "F:") && vs == SInt && isPtrLike(gt):
				if _, ok := vc.decl[al0]; ok {
					fmt.Fprintf(&sb, "(assert (forall ((r Int)) (! (or (= (select %s r) 0) (select %s (select %s r))) :pattern ((select %s r)))))\n", n, al0, n, n)
				}
			}
		}
	}
	if vc.trig["strext"] {
		sb.WriteString("(assert (forall ((u SV) (v SV)) (! (=> (and (= (svlen u) (svlen v)) (forall ((i Int)) (=> (and (<= 0 i) (< i (svlen u))) (= (svbyte u i) (svbyte v i))))) (= u v)) :pattern ((svlen u) (svlen v)))))\n")
	}
	// string literal bytes
	full := sb.String() + body.String()
	used := map[int]bool{}
	for _, m := range reStrLit.FindAllStringSubmatch(full, -1) {
		var id int
		fmt.Sscanf(m[1], "%d", &id)
		used[id] = true
	}
	for _, f := range w.strConstFacts(used) {
		fmt.Fprintf(&sb, "(assert %s)\n", f)
	}
	sb.WriteString(body.String())
	sb.WriteString("(check-sat)\n")
	return sb.String(), nil
}

var skCounter int

// skolemize replaces positive universal quantifiers of a goal by fresh constants.
func skolemize(g *Term, decls *[]string) *Term {
	switch g.Op {
	case "forall":
		m := map[string]*Term{}
		for _, v := range g.Vars {
			skCounter++
			n := fmt.Sprintf("sk!%d!%s", skCounter, strings.TrimPrefix(v.Name, "q!"))
			*decls = append(*decls, fmt.Sprintf("(declare-const %s %s)", n, v.Sort))
			m[v.Name] = Sym(n, v.Sort)
		}
		return skolemize(Subst(g.Args[0], m), decls)
	case "and":
		as := make([]*Term, len(g.Args))
		for i, a := range g.Args {
			as[i] = skolemize(a, decls)
		}
		return And(as...)
	case "=>":
		return Implies(g.Args[0], skolemize(g.Args[1], decls))
	}
	return g
}

func hasBound(t *Term) bool {
	found := false
	Walk(t, map[*Term]bool{}, func(x *Term) {
		if len(x.Args) == 0 && strings.HasPrefix(x.Op, "q!") {
			found = true
		}
	})
	return found
}

// collectAppsDeep also looks through applications of transparent (define-fun)
// spec functions by instantiating their bodies.
func (w *World) collectAppsDeep(t *Term, fs map[string]*specSig, seen map[*Term]bool, bound map[string]bool, f func(*Term)) {
	expanded := map[string]bool{}
	var visit func(t *Term)
	visit = func(t *Term) {
		collectApps(t, fs, seen, bound, f)
		// transparent spec applications
		var apps []*Term
		Walk(t, map[*Term]bool{}, func(x *Term) {
			if strings.HasPrefix(x.Op, "spec!") && len(x.Args) > 0 {
				if _, isUnf := fs[x.Op]; !isUnf {
					apps = append(apps, x)
				}
			}
		})
		for _, app := range apps {
			if hasBound(app) {
				continue
			}
			k := app.String()
			if expanded[k] {
				continue
			}
			expanded[k] = true
			for _, sig := range w.specSigs {
				if sig.name == app.Op && sig.body != nil && !sig.sf.Rec && !sig.sf.Opaque {
					bs := w.specBinders(sig)
					m := map[string]*Term{}
					for i, b := range bs {
						m[b.Name] = app.Args[i]
					}
					visit(Subst(sig.body, m))
				}
			}
		}
	}
	visit(t)
}

// collectApps finds ground applications of the given function symbols.
func collectApps(t *Term, fs map[string]*specSig, seen map[*Term]bool, bound map[string]bool, f func(*Term)) {
	if len(t.Vars) > 0 {
		nb := map[string]bool{}
		for k := range bound {
			nb[k] = true
		}
		for _, v := range t.Vars {
			nb[v.Name] = true
		}
		for _, a := range t.Args {
			collectApps(a, fs, map[*Term]bool{}, nb, f)
		}
		return
	}
	if len(bound) == 0 {
		if seen[t] {
			return
		}
		seen[t] = true
	}
	for _, a := range t.Args {
		collectApps(a, fs, seen, bound, f)
	}
	if _, ok := fs[t.Op]; ok && len(t.Args) > 0 {
		if len(bound) > 0 {
			fv := map[string]bool{}
			FreeSyms(t, fv)
			for b := range bound {
				if fv[b] {
					return
				}
			}
		}
		f(t)
	}
}

// ---------------------------------------------------------------- running solvers

type solverSpec struct {
	name string
	argv func(file string, sec int) []string
}

var solvers = []solverSpec{
	{"z3-5.1.0", func(f string, sec int) []string { return []string{"z3-new", fmt.Sprintf("-T:%d", sec), f} }},
	{"z3-4.8.12", func(f string, sec int) []string { return []string{"z3", fmt.Sprintf("-T:%d", sec), f} }},
	{"cvc5-1.0", func(f string, sec int) []string {
		return []string{"cvc5", fmt.Sprintf("--tlimit=%d", sec*1000), "--produce-models", f}
	}},
}

func init() {
	// VERIF_SOLVERS=z3-5.1.0,cvc5-1.0 restricts the portfolio (debugging / cross-checking)
	if v := os.Getenv("VERIF_SOLVERS"); v != "" {
		var keep []solverSpec
		for _, s := range solvers {
			if strings.Contains(","+v+",", ","+s.name+",") {
				keep = append(keep, s)
			}
		}
		if len(keep) > 0 {
			solvers = keep
		}
	}
}

var procSlots = make(chan struct{}, 16)

type Runner struct {
	timeout  int
	workdir  string
	useCache bool
	keep     bool
	mu       sync.Mutex
	byBack   map[string]int
	solverT  float64
	both     bool // thorough: require agreement of two solvers
	reseed   bool // retry runner: race additional, differently seeded solver runs
}

func NewRunner(timeout int, useCache bool) *Runner {
	d, _ := os.MkdirTemp("", "govc-q-")
	return &Runner{timeout: timeout, workdir: d, useCache: useCache, byBack: map[string]int{}}
}

func (r *Runner) Close() {
	if !r.keep {
		os.RemoveAll(r.workdir)
	}
}

func cacheDir() string { return filepath.Join(verifDir(), ".cache") }

func (r *Runner) Solve(vc *VC, o *Obl, idx int) *Result {
	res := &Result{Obl: o, Raw: map[string]string{}, vcReplay: vc.replay}
	for _, n := range vc.notes {
		if strings.HasPrefix(n, "havoc:") {
			res.havoc = true
		}
	}
	q, err := vc.buildQuery(o)
	if err != nil {
		res.Status = "error"
		res.Raw["error"] = err.Error()
		return res
	}
	res.Query = q
	sum := fmt.Sprintf("%x", sha256.Sum256([]byte(q)))
	if r.useCache && !o.ExpectSat {
		if b, err := os.ReadFile(filepath.Join(cacheDir(), sum)); err == nil {
			res.Status = "discharged"
			res.Solver = strings.TrimSpace(string(b)) + " (cached)"
			res.CacheHit = true
			r.mu.Lock()
			r.byBack[strings.TrimSpace(string(b))]++
			r.mu.Unlock()
			return res
		}
	}
	file := filepath.Join(r.workdir, fmt.Sprintf("q%05d_%s.smt2", idx, sum[:8]))
	os.WriteFile(file, []byte(q+"(get-model)\n"), 0o644)
	ctx, cancel := context.WithCancel(context.Background())
	defer cancel()
	type ans struct {
		solver, verdict, out string
		t              float64
	}
	solvers := solvers
	if r.reseed {
		// retries also race differently seeded runs: z3's search on quantified goals is chaotic, a
		// goal that one seed decides in seconds another may not decide at all
		for _, sd := range []int{7, 23} {
			sd := sd
			solvers = append(solvers, solverSpec{fmt.Sprintf("z3-5.1.0#seed%d", sd), func(f string, sec int) []string {
				return []string{"z3-new", fmt.Sprintf("-T:%d", sec), fmt.Sprintf("smt.random_seed=%d", sd), fmt.Sprintf("sat.random_seed=%d", sd), f}
			}})
		}
		solvers = append(solvers, solverSpec{"cvc5-1.0#seed7", func(f string, sec int) []string {
			return []string{"cvc5", fmt.Sprintf("--tlimit=%d", sec*1000), "--produce-models", "--seed=7", f}
		}})
	}
	ch := make(chan ans, len(solvers))
	for _, s := range solvers {
		s := s
		go func() {
			procSlots <- struct{}{}
			defer func() { <-procSlots }()
			if ctx.Err() != nil {
				ch <- ans{s.name, "cancelled", "", 0}
				return
			}
			t0 := time.Now()
			to := r.timeout
			if o.ExpectSat && to > 3 && !strings.HasPrefix(o.Name, "cover/prelude/") {
				to = 3
			}
			argv := s.argv(file, to)
			cmd := exec.CommandContext(ctx, argv[0], argv[1:]...)
			var out bytes.Buffer
			cmd.Stdout = &out
			cmd.Stderr = &out
			cmd.Run()
			dt := time.Since(t0).Seconds()
			first := strings.TrimSpace(strings.SplitN(out.String(), "\n", 2)[0])
			v := first
			switch {
			case first == "sat" || first == "unsat":
			case ctx.Err() != nil:
				v = "cancelled"
			case first == "unknown" || first == "timeout" || strings.Contains(first, "timeout") || strings.Contains(first, "interrupted"):
				v = "unknown"
			case first == "":
				v = "unknown"
			case strings.HasPrefix(first, "(error"):
				v = "error"
			default:
				v = "error"
			}
			ch <- ans{s.name, v, out.String(), dt}
		}()
	}
	want := "unsat"
	if o.ExpectSat {
		want = "sat"
	}
	var agree []string
	nerr := 0
	pending := len(solvers)
	for pending > 0 {
		a := <-ch
		pending--
		if a.verdict != "cancelled" {
			res.Raw[a.solver] = trunc(a.out, 4000)
			r.mu.Lock()
			r.solverT += a.t
			r.mu.Unlock()
		}
		if a.verdict == "error" {
			nerr++
		}
		if a.verdict == want {
			agree = append(agree, a.solver)
			// z3 4.8.12 was seen to answer unsat on a satisfiable query (a seeded change, C17-1):
			// its unsat counts only when a second solver agrees
			alone := want == "unsat" && len(agree) == 1 && agree[0] == "z3-4.8.12" && len(solvers) > 1
			if alone && pending > 0 {
				continue
			}
			if alone {
				agree = nil
				res.Raw["note"] = "only z3-4.8.12 answered unsat; not accepted without a second solver"
				break
			}
			if !r.both || len(agree) >= 2 || pending == 0 {
				res.Status = "discharged"
				res.Solver = strings.Join(agree, "+")
				res.Time = a.t
				cancel()
				break
			}
			continue
		}
		if a.verdict == "sat" || a.verdict == "unsat" {
			// the opposite definitive answer
			res.Status = "failed"
			res.Solver = a.solver
			res.Time = a.t
			if a.verdict == "sat" {
				if i := strings.Index(a.out, "\n"); i >= 0 {
					res.Model = a.out[i+1:]
				}
			}
			cancel()
			break
		}
	}
	if res.Status == "" {
		if len(agree) == 1 && agree[0] == "z3-4.8.12" && want == "unsat" && len(solvers) > 1 {
			agree = nil
		}
		if len(agree) > 0 {
			res.Status = "discharged"
			res.Solver = strings.Join(agree, "+")
		} else if nerr == len(solvers) {
			res.Status = "error"
		} else {
			res.Status = "undecided"
		}
	}
	// drain
	go func(n int) {
		for i := 0; i < n; i++ {
			<-ch
		}
	}(pending)
	if res.Status == "discharged" {
		r.mu.Lock()
		r.byBack[strings.SplitN(res.Solver, "+", 2)[0]]++
		r.mu.Unlock()
		if r.useCache && !o.ExpectSat {
			os.MkdirAll(cacheDir(), 0o755)
			os.WriteFile(filepath.Join(cacheDir(), sum), []byte(strings.SplitN(res.Solver, "+", 2)[0]), 0o644)
		}
	}
	if res.Status != "failed" && res.Status != "undecided" && !r.keep {
		os.Remove(file)
	}
	return res
}

func trunc(s string, n int) string {
	if len(s) > n {
		return s[:n] + "…"
	}
	return s
}

// SolveAll discharges all obligations of the VCs in parallel.
func (r *Runner) SolveAll(items []vcObl) []*Result {
	out := make([]*Result, len(items))
	var wg sync.WaitGroup
	sem := make(chan struct{}, 24)
	for i := range items {
		wg.Add(1)
		sem <- struct{}{}
		go func(i int) {
			defer wg.Done()
			defer func() { <-sem }()
			out[i] = r.Solve(items[i].vc, items[i].o, i)
		}(i)
	}
	wg.Wait()
	return out
}

type vcObl struct {
	vc *VC
	o  *Obl
}

func sortResults(rs []*Result) {
	sort.SliceStable(rs, func(i, j int) bool { return rs[i].Obl.Name < rs[j].Obl.Name })
}

// expandTransparent returns the instantiated bodies of all ground applications
// of transparent (macro) spec functions occurring in ts, recursively.
func (w *World) expandTransparent(ts []*Term) []*Term {
	var out []*Term
	done := map[string]bool{}
	byName := map[string]*specSig{}
	for _, sig := range w.specSigs {
		if sig.body != nil && !sig.sf.Rec && !sig.sf.Opaque && !sig.sf.Uninter {
			byName[sig.name] = sig
		}
	}
	var visit func(t *Term)
	visit = func(t *Term) {
		var apps []*Term
		Walk(t, map[*Term]bool{}, func(x *Term) {
			if _, ok := byName[x.Op]; ok && len(x.Args) > 0 {
				apps = append(apps, x)
			}
		})
		for _, app := range apps {
			if hasBound(app) {
				continue
			}
			k := app.String()
			if done[k] {
				continue
			}
			done[k] = true
			sig := byName[app.Op]
			bs := w.specBinders(sig)
			if len(bs) != len(app.Args) {
				continue
			}
			m := map[string]*Term{}
			for i, b := range bs {
				m[b.Name] = app.Args[i]
			}
			inst := Subst(sig.body, m)
			out = append(out, inst)
			visit(inst)
		}
	}
	for _, t := range ts {
		visit(t)
	}
	return out
}
