package main

// Global invariants that are established by the package initialiser, proved
// there, and assumed everywhere else once the global is shown to be stable
// (never written outside the initialiser: a syntactic check on the SSA).

import (
	"fmt"
	"go/types"
	"strings"

	"golang.org/x/tools/go/ssa"
)

// explicitInits: the init#k functions of a package, in source order.
func (w *World) explicitInits(pkgPath string) []*ssa.Function {
	sp := w.spkgs[pkgPath]
	if sp == nil {
		return nil
	}
	ini, _ := sp.Members["init"].(*ssa.Function)
	if ini == nil {
		return nil
	}
	var out []*ssa.Function
	for _, b := range ini.Blocks {
		for _, ins := range b.Instrs {
			if c, ok := ins.(*ssa.Call); ok {
				if f := c.Call.StaticCallee(); f != nil && f.Pkg == sp && strings.HasPrefix(f.Name(), "init#") {
					out = append(out, f)
				}
			}
		}
	}
	return out
}

func isInitFunc(fn *ssa.Function) bool {
	for fn.Parent() != nil {
		fn = fn.Parent()
	}
	return fn.Name() == "init" || strings.HasPrefix(fn.Name(), "init#")
}

// literalInit: the constant elements stored by the composite literal that
// initialises a package-level slice variable.
func (w *World) literalInit(g *ssa.Global) ([]*ssa.Const, bool) {
	ini, _ := g.Pkg.Members["init"].(*ssa.Function)
	if ini == nil {
		return nil, false
	}
	var sl *ssa.Slice
	n := 0
	for _, b := range ini.Blocks {
		for _, ins := range b.Instrs {
			if st, ok := ins.(*ssa.Store); ok && st.Addr == g {
				n++
				sl, _ = st.Val.(*ssa.Slice)
			}
		}
	}
	if n != 1 || sl == nil || sl.Low != nil || sl.High != nil || sl.Max != nil {
		return nil, false
	}
	al, ok := sl.X.(*ssa.Alloc)
	if !ok {
		return nil, false
	}
	at, ok := types.Unalias(al.Type().(*types.Pointer).Elem()).Underlying().(*types.Array)
	if !ok {
		return nil, false
	}
	out := make([]*ssa.Const, at.Len())
	for _, r := range *al.Referrers() {
		switch x := r.(type) {
		case *ssa.Slice, *ssa.DebugRef:
		case *ssa.IndexAddr:
			ic, ok := x.Index.(*ssa.Const)
			if !ok {
				return nil, false
			}
			k := int(ic.Int64())
			for _, rr := range *x.Referrers() {
				st, ok := rr.(*ssa.Store)
				if !ok || st.Addr != x {
					return nil, false
				}
				c, ok := st.Val.(*ssa.Const)
				if !ok || out[k] != nil {
					return nil, false
				}
				out[k] = c
			}
		default:
			return nil, false
		}
	}
	for _, c := range out {
		if c == nil {
			return nil, false // zero-valued holes: not needed so far
		}
	}
	return out, true
}

// literalFacts: the value of g right after its initialiser ran.
func (w *World) literalFacts(g *ssa.Global, h *Heap) ([]*Term, bool) {
	cs, ok := w.literalInit(g)
	if !ok {
		return nil, false
	}
	st, ok := types.Unalias(g.Type().(*types.Pointer).Elem()).Underlying().(*types.Slice)
	if !ok {
		return nil, false
	}
	v := h.get(w.globalHeap(g))
	eh := h.get(w.elemHeap(st.Elem()))
	n := IntLit(int64(len(cs)))
	out := []*Term{Not(Eq(SlArr(v), IntLit(0))), Eq(SlLen(v), n), Eq(SlCap(v), n), Eq(SlOff(v), IntLit(0))}
	for k, c := range cs {
		out = append(out, Eq(Select(Select(eh, SlArr(v)), Idx(SlOff(v), IntLit(int64(k)))), w.constTerm(c.Value, c.Type())))
	}
	// the same as one quantified fact, for elements reached through a symbolic index
	j := Sym(freshBinder("j"), SInt)
	chain := w.constTerm(cs[len(cs)-1].Value, cs[len(cs)-1].Type())
	for k := len(cs) - 2; k >= 0; k-- {
		chain = Ite(Eq(j, IntLit(int64(k))), w.constTerm(cs[k].Value, cs[k].Type()), chain)
	}
	el := Select(Select(eh, SlArr(v)), Idx(SlOff(v), j))
	out = append(out, Forall([]Binder{{j.Op, SInt}}, Implies(And(Le(IntLit(0), j), Lt(j, n)), Eq(el, chain)), []*Term{el}))
	return out, true
}

// globalStable: outside the package initialisers nothing stores to g, writes
// an element of the slice it holds, or lets that slice escape to code that
// might.  Conservative: anything not recognised as a read is a write.
func (w *World) globalStable(g *ssa.Global) (bool, string) {
	if w.stableMemo == nil {
		w.stableMemo = map[*ssa.Global]string{}
	}
	if why, ok := w.stableMemo[g]; ok {
		return why == "", why
	}
	why := w.globalStable1(g)
	w.stableMemo[g] = why
	return why == "", why
}

func (w *World) globalStable1(g *ssa.Global) string {
	for path, sp := range w.spkgs {
		if sp == nil || !strings.HasPrefix(path, modPath) {
			continue
		}
		for _, fn := range w.allFuncs(path) {
			if isInitFunc(fn) {
				continue
			}
			for _, b := range fn.Blocks {
				for _, ins := range b.Instrs {
					for _, op := range ins.Operands(nil) {
						if *op != ssa.Value(g) {
							continue
						}
						u, ok := ins.(*ssa.UnOp)
						if !ok {
							return fmt.Sprintf("%s: %s uses the address of %s", relName(fn), ins, g.Name())
						}
						if why := w.readOnlyUses(u, map[ssa.Value]bool{}); why != "" {
							return fmt.Sprintf("%s: %s", relName(fn), why)
						}
					}
				}
			}
		}
	}
	return ""
}

func (w *World) readOnlyUses(v ssa.Value, seen map[ssa.Value]bool) string {
	if seen[v] {
		return ""
	}
	seen[v] = true
	refs := v.Referrers()
	if refs == nil {
		return ""
	}
	for _, r := range *refs {
		switch x := r.(type) {
		case *ssa.DebugRef, *ssa.Range, *ssa.Lookup, *ssa.BinOp, *ssa.If:
		case *ssa.Index:
		case *ssa.IndexAddr:
			for _, rr := range *x.Referrers() {
				switch y := rr.(type) {
				case *ssa.UnOp, *ssa.DebugRef:
				default:
					return fmt.Sprintf("element address used by %s", y)
				}
			}
		case *ssa.Slice, *ssa.Phi:
			if why := w.readOnlyUses(x.(ssa.Value), seen); why != "" {
				return why
			}
		case *ssa.Call:
			if b, ok := x.Call.Value.(*ssa.Builtin); ok && (b.Name() == "len" || b.Name() == "cap") {
				continue
			}
			cal := x.Call.StaticCallee()
			if cal == nil {
				return fmt.Sprintf("passed to dynamic call %s", x)
			}
			fc := w.contractFor(cal)
			if fc != nil && (fc.Pure || fc.Functional || (fc.HasAssigns && len(fc.Assigns) == 0)) {
				continue
			}
			return fmt.Sprintf("passed to %s whose contract does not say it writes nothing", cal.Name())
		default:
			return fmt.Sprintf("used by %s", r)
		}
	}
	return ""
}

// ginvGlobal resolves the global a named invariant talks about.
func (w *World) ginvGlobal(gi *GlobalInv) *ssa.Global {
	sp := w.spkgs[gi.Pkg]
	if sp == nil || gi.Global == "" {
		return nil
	}
	g, _ := sp.Members[gi.Global].(*ssa.Global)
	return g
}

// establisher: the function whose contract says it establishes the invariant.
func (w *World) establisher(gi *GlobalInv) string {
	for _, k := range w.cons.FuncOrd {
		fc := w.cons.Funcs[k]
		if fc.Pkg == gi.Pkg && strings.Contains(" "+fc.Opts["establishes"]+" ", " "+gi.Global+" ") {
			return k
		}
	}
	return ""
}
