package main

// World: loaded program, Go type -> SMT sort mapping, heap keys, prelude.

import (
	"fmt"
	"go/ast"
	"go/constant"
	"go/parser"
	"go/token"
	"go/types"
	"math/big"
	"os"
	"path/filepath"
	"sort"
	"strings"

	"golang.org/x/tools/go/packages"
	"golang.org/x/tools/go/ssa"
	"golang.org/x/tools/go/ssa/ssautil"
)

const modPath = "github.com/AdguardTeam/urlfilter"

type World struct {
	repo   string
	fset   *token.FileSet
	pkgs   map[string]*packages.Package
	spkgs  map[string]*ssa.Package
	prog   *ssa.Program
	cons   *Contracts
	tpkgs  map[string]*types.Package // every package reachable, by path
	byName map[string][]*types.Package

	heapSort map[string]Sort // heap key -> SMT sort of the heap variable
	heapGoT  map[string]types.Type
	xsorts   map[Sort]bool
	boxSorts map[Sort]bool
	regContracts map[*ssa.Function]*FuncContract
	stableMemo   map[*ssa.Global]string
	tags     map[string]int
	tagTypes []types.Type
	strIDs   map[string]int
	strList  []string

	specSigs map[string]*specSig
}

// shortPath abbreviates package paths of this module.
func shortPath(p string) string {
	if p == modPath {
		return "urlfilter"
	}
	if strings.HasPrefix(p, modPath+"/") {
		return p[len(modPath)+1:]
	}
	return p
}

func LoadWorld(repo string) (*World, error) {
	w := &World{repo: repo, pkgs: map[string]*packages.Package{}, spkgs: map[string]*ssa.Package{},
		tpkgs: map[string]*types.Package{}, byName: map[string][]*types.Package{},
		heapSort: map[string]Sort{}, boxSorts: map[Sort]bool{}, heapGoT: map[string]types.Type{}, xsorts: map[Sort]bool{},
		tags: map[string]int{}, strIDs: map[string]int{}, specSigs: map[string]*specSig{}}
	strLitHook = w.strLitOf
	env := append(os.Environ(), "GOFLAGS=-mod=mod", "GOPROXY=off", "GOSUMDB=off", "GOTOOLCHAIN=local", "CGO_ENABLED=0")
	cfg := &packages.Config{Mode: packages.LoadAllSyntax, Dir: repo, BuildFlags: []string{"-tags=verif"}, Env: env}
	pats := []string{".", "./rules", "./filterutil", "./filterlist", "./lookup", "./proxy"}
	pkgs, err := packages.Load(cfg, pats...)
	if err != nil {
		return nil, err
	}
	nerr := 0
	packages.Visit(pkgs, nil, func(p *packages.Package) {
		for _, e := range p.Errors {
			if strings.HasPrefix(p.PkgPath, modPath) {
				fmt.Fprintf(os.Stderr, "load error: %s: %v\n", p.PkgPath, e)
				nerr++
			}
		}
		if p.Types != nil {
			w.tpkgs[p.PkgPath] = p.Types
			w.byName[p.Types.Name()] = append(w.byName[p.Types.Name()], p.Types)
		}
	})
	if nerr > 0 {
		return nil, fmt.Errorf("%d load errors in %s (the tree does not compile)", nerr, repo)
	}
	prog, spkgs := ssautil.AllPackages(pkgs, ssa.GlobalDebug)
	prog.Build()
	w.prog = prog
	for i, p := range pkgs {
		w.pkgs[p.PkgPath] = p
		w.spkgs[p.PkgPath] = spkgs[i]
		w.fset = p.Fset
	}
	w.regAllocKeys()
	w.registerAllHeaps()
	// contracts: //@ lines of verif_contracts*.go in each package + stdlib file
	w.cons = NewContracts()
	std, err := os.ReadFile(filepath.Join(verifDir(), "contracts", "stdlib.contracts"))
	if err == nil {
		if err := w.cons.ParseContractText(string(std), "stdlib.contracts", ""); err != nil {
			return nil, err
		}
	}
	paths := make([]string, 0, len(w.pkgs))
	for p := range w.pkgs {
		paths = append(paths, p)
	}
	sort.Strings(paths)
	for _, pp := range paths {
		p := w.pkgs[pp]
		for _, f := range p.GoFiles {
			if !strings.HasPrefix(filepath.Base(f), "verif_contracts") {
				continue
			}
			b, err := os.ReadFile(f)
			if err != nil {
				return nil, err
			}
			if err := w.cons.ParseContractText(string(b), f, pp); err != nil {
				return nil, err
			}
		}
	}
	return w, nil
}

func verifDir() string {
	if d := os.Getenv("VERIF_DIR"); d != "" {
		return d
	}
	return "/verif"
}

// ---------------------------------------------------------------- types

func (w *World) isRepoNamed(t types.Type) (*types.Named, bool) {
	n, ok := types.Unalias(t).(*types.Named)
	if !ok || n.Obj().Pkg() == nil {
		return nil, false
	}
	return n, strings.HasPrefix(n.Obj().Pkg().Path(), modPath)
}

// modelledExt: library structs whose exported fields the repository reads and
// writes directly; they are modelled field by field like the repository's own
// (library code touching them is still only known through its contracts).
var modelledExt = map[string]bool{"net/http.Response": true, "net/http.Request": true, "net/url.URL": true}

func typeStr(t types.Type) string {
	t = types.Unalias(t)
	switch u := t.(type) {
	case *types.Basic:
		switch u.Kind() {
		case types.Uint8:
			return "uint8"
		case types.Int32:
			return "int32"
		}
		return u.Name()
	case *types.Pointer:
		return "*" + typeStr(u.Elem())
	case *types.Slice:
		return "[]" + typeStr(u.Elem())
	case *types.Array:
		return fmt.Sprintf("[%d]%s", u.Len(), typeStr(u.Elem()))
	case *types.Map:
		return "map[" + typeStr(u.Key()) + "]" + typeStr(u.Elem())
	}
	return types.TypeString(t, func(p *types.Package) string { return shortPath(p.Path()) })
}

// repoStruct returns the struct type if t is a struct declared in the repo
// (so its fields are modelled); external structs are opaque.
func (w *World) repoStruct(t types.Type) (*types.Struct, bool) {
	t = types.Unalias(t)
	if n, ok := t.(*types.Named); ok {
		if _, in := w.isRepoNamed(n); !in && !modelledExt[typeStr(n)] {
			return nil, false
		}
		st, ok := n.Underlying().(*types.Struct)
		return st, ok
	}
	st, ok := t.(*types.Struct)
	return st, ok
}

// sortOf maps a Go type to the SMT sort of its scalar representation.
// Struct (repo) and tuple types have no scalar sort (compound values).
func (w *World) sortOf(t types.Type) Sort {
	t = types.Unalias(t)
	switch u := t.Underlying().(type) {
	case *types.Basic:
		switch u.Kind() {
		case types.Bool, types.UntypedBool:
			return SBool
		case types.Int, types.UntypedInt, types.UntypedRune:
			return SInt
		case types.Int8, types.Uint8:
			return BV(8)
		case types.Int16, types.Uint16:
			return BV(16)
		case types.Int32, types.Uint32:
			return BV(32)
		case types.Int64, types.Uint64, types.Uint, types.Uintptr:
			return BV(64)
		case types.String, types.UntypedString:
			return SStr
		case types.Float64, types.Float32, types.UntypedFloat:
			return SReal
		case types.UntypedNil:
			return SInt
		case types.UnsafePointer:
			return SInt
		}
	case *types.Pointer, *types.Map, *types.Chan, *types.Signature:
		return SInt
	case *types.Slice:
		return SSlice
	case *types.Interface:
		return SIface
	case *types.Struct:
		if _, ok := w.repoStruct(t); ok {
			return "" // compound
		}
		s := Sort("X_" + smtName(typeStr(t)))
		w.xsorts[s] = true
		return s
	case *types.Array:
		s := Sort("X_" + smtName(typeStr(t)))
		w.xsorts[s] = true
		return s
	case *types.Tuple:
		return ""
	}
	panic("sortOf: unsupported type " + t.String())
}

func isSigned(t types.Type) bool {
	b, ok := types.Unalias(t).Underlying().(*types.Basic)
	if !ok {
		return false
	}
	switch b.Kind() {
	case types.Int, types.Int8, types.Int16, types.Int32, types.Int64, types.UntypedInt, types.UntypedRune:
		return true
	}
	return false
}

func isString(t types.Type) bool {
	b, ok := types.Unalias(t).Underlying().(*types.Basic)
	return ok && b.Info()&types.IsString != 0
}

func isUntyped(t types.Type) bool {
	b, ok := t.(*types.Basic)
	return ok && b.Info()&types.IsUntyped != 0
}

func (w *World) zero(t types.Type) *Term {
	s := w.sortOf(t)
	return w.zeroOfSort(s)
}

func (w *World) zeroOfSort(s Sort) *Term {
	switch {
	case s == SInt:
		return IntLit(0)
	case s == SBool:
		return False
	case s == SStr:
		return EmptyStr
	case s == SSlice:
		return NilSlice
	case s == SIface:
		return NilIface
	case s == SReal:
		return &Term{Op: "0.0", Sort: SReal}
	case s.BVWidth() > 0:
		return BVLitU(0, s.BVWidth())
	case strings.HasPrefix(string(s), "X_"):
		w.xsorts[s] = true
		return Sym("zero!"+string(s), s)
	}
	panic("zeroOfSort: " + string(s))
}

// ---------------------------------------------------------------- heap keys

func (w *World) regHeap(key string, s Sort, t types.Type) string {
	if old, ok := w.heapSort[key]; ok && old != s {
		panic(fmt.Sprintf("heap key %s registered with sorts %s and %s", key, old, s))
	}
	w.heapSort[key] = s
	w.heapGoT[key] = t
	return key
}

// fieldHeapP registers the heap array of a scalar field.  prefix is the key
// prefix of the enclosing struct: "F:<type>" for a top-level struct, longer
// for structs nested by value (which are flattened).
func (w *World) fieldHeapP(prefix string, st *types.Struct, idx int) string {
	f := st.Field(idx)
	key := prefix + "." + f.Name()
	s := w.sortOf(f.Type())
	if s == "" {
		panic("fieldHeapP: compound field " + key)
	}
	return w.regHeap(key, ArrSort(SInt, s), f.Type())
}

func structPrefix(named types.Type) string { return "F:" + typeStr(named) }

func (w *World) elemHeap(elem types.Type) string {
	s := w.sortOf(elem)
	if s == "" {
		panic("elemHeap: compound element type " + elem.String())
	}
	return w.regHeap("E:"+typeStr(elem), ArrSort(SInt, ArrSort(SInt, s)), elem)
}

func (w *World) cellHeap(t types.Type) string {
	s := w.sortOf(t)
	if s == "" {
		panic("cellHeap: compound type " + t.String())
	}
	return w.regHeap("C:"+typeStr(t), ArrSort(SInt, s), t)
}

func (w *World) mapHeaps(m *types.Map) (val, has string) {
	ks, vs := w.sortOf(m.Key()), w.sortOf(m.Elem())
	if ks == SStr {
		ks = "SV" // strings are keyed by their abstract value
	}
	base := typeStr(m.Key()) + "=>" + typeStr(m.Elem())
	val = w.regHeap("MV:"+base, ArrSort(SInt, ArrSort(ks, vs)), m)
	has = w.regHeap("MH:"+base, ArrSort(SInt, ArrSort(ks, SBool)), m)
	return
}

func (w *World) globalHeap(g *ssa.Global) string {
	t := g.Type().(*types.Pointer).Elem()
	s := w.sortOf(t)
	if s == "" {
		panic("globalHeap: compound global " + g.String())
	}
	return w.regHeap("G:"+shortPath(g.Pkg.Pkg.Path())+"."+g.Name(), s, t)
}

func heapSym(key string, version string) string { return smtName("H" + version + "!" + key) }

func (w *World) tagOf(t types.Type) int {
	k := typeStr(t)
	if v, ok := w.tags[k]; ok {
		return v
	}
	v := len(w.tags) + 1
	w.tags[k] = v
	w.tagTypes = append(w.tagTypes, t)
	return v
}

func (w *World) strConst(s string) *Term {
	id, ok := w.strIDs[s]
	if !ok {
		id = len(w.strList) + 1
		w.strIDs[s] = id
		w.strList = append(w.strList, s)
	}
	if s == "" {
		return EmptyStr
	}
	return MkStr(IntLit(int64(-id)), IntLit(0), IntLit(int64(len(s))))
}

// ---------------------------------------------------------------- constants

func (w *World) constTerm(v constant.Value, t types.Type) *Term {
	s := w.sortOf(t)
	switch v.Kind() {
	case constant.Bool:
		if constant.BoolVal(v) {
			return True
		}
		return False
	case constant.String:
		return w.strConst(constant.StringVal(v))
	case constant.Int:
		bi, _ := new(big.Int).SetString(v.ExactString(), 10)
		if s == SInt {
			return BigIntLit(bi)
		}
		if wd := s.BVWidth(); wd > 0 {
			return BVLit(bi, wd)
		}
		if s == SReal {
			return &Term{Op: bi.String() + ".0", Sort: SReal}
		}
	case constant.Float:
		f, _ := constant.Float64Val(v)
		if s == SReal {
			return &Term{Op: fmt.Sprintf("%f", f), Sort: SReal}
		}
		if s == SInt {
			return IntLit(int64(f))
		}
	}
	panic(fmt.Sprintf("constTerm: %v of type %s", v, t))
}

// ---------------------------------------------------------------- type text resolution (for contracts)

func (w *World) resolveType(text string, pkgPath string) (types.Type, error) {
	e, err := parser.ParseExpr(text)
	if err != nil {
		return nil, fmt.Errorf("type %q: %v", text, err)
	}
	return w.resolveTypeExpr(e, pkgPath)
}

func (w *World) resolveTypeExpr(e ast.Expr, pkgPath string) (types.Type, error) {
	switch x := e.(type) {
	case *ast.Ident:
		if o := types.Universe.Lookup(x.Name); o != nil {
			if tn, ok := o.(*types.TypeName); ok {
				return tn.Type(), nil
			}
		}
		if p := w.tpkgs[pkgPath]; p != nil {
			if o := p.Scope().Lookup(x.Name); o != nil {
				if tn, ok := o.(*types.TypeName); ok {
					return tn.Type(), nil
				}
			}
		}
		// fall back: search repo packages
		for path, p := range w.tpkgs {
			if strings.HasPrefix(path, modPath) {
				if o := p.Scope().Lookup(x.Name); o != nil {
					if tn, ok := o.(*types.TypeName); ok {
						return tn.Type(), nil
					}
				}
			}
		}
		return nil, fmt.Errorf("unknown type %s", x.Name)
	case *ast.SelectorExpr:
		pn, ok := x.X.(*ast.Ident)
		if !ok {
			return nil, fmt.Errorf("bad qualified type")
		}
		for _, p := range w.pkgCandidates(pn.Name, pkgPath) {
			if o := p.Scope().Lookup(x.Sel.Name); o != nil {
				if tn, ok := o.(*types.TypeName); ok {
					return tn.Type(), nil
				}
			}
		}
		return nil, fmt.Errorf("unknown type %s.%s", pn.Name, x.Sel.Name)
	case *ast.StarExpr:
		t, err := w.resolveTypeExpr(x.X, pkgPath)
		if err != nil {
			return nil, err
		}
		return types.NewPointer(t), nil
	case *ast.ArrayType:
		t, err := w.resolveTypeExpr(x.Elt, pkgPath)
		if err != nil {
			return nil, err
		}
		if x.Len == nil {
			return types.NewSlice(t), nil
		}
		return nil, fmt.Errorf("array types unsupported in contracts")
	case *ast.MapType:
		k, err := w.resolveTypeExpr(x.Key, pkgPath)
		if err != nil {
			return nil, err
		}
		v, err := w.resolveTypeExpr(x.Value, pkgPath)
		if err != nil {
			return nil, err
		}
		return types.NewMap(k, v), nil
	case *ast.ParenExpr:
		return w.resolveTypeExpr(x.X, pkgPath)
	case *ast.InterfaceType:
		return types.NewInterfaceType(nil, nil), nil
	}
	return nil, fmt.Errorf("unsupported type expression %T", e)
}

// pkgCandidates finds packages by (import) name, preferring imports of pkgPath.
func (w *World) pkgCandidates(name, pkgPath string) []*types.Package {
	var out []*types.Package
	if p := w.tpkgs[pkgPath]; p != nil {
		for _, imp := range p.Imports() {
			if imp.Name() == name {
				out = append(out, imp)
			}
		}
	}
	cands := w.byName[name]
	sort.Slice(cands, func(i, j int) bool {
		// repo packages first, then shorter paths (stdlib)
		ri, rj := strings.HasPrefix(cands[i].Path(), modPath), strings.HasPrefix(cands[j].Path(), modPath)
		if ri != rj {
			return ri
		}
		return len(cands[i].Path()) < len(cands[j].Path())
	})
	out = append(out, cands...)
	return out
}

// lookupConst finds a package-level constant by name (optionally pkg-qualified).
func (w *World) lookupConst(name, pkgPath string) (*types.Const, bool) {
	if i := strings.Index(name, "."); i >= 0 {
		for _, p := range w.pkgCandidates(name[:i], pkgPath) {
			if o, ok := p.Scope().Lookup(name[i+1:]).(*types.Const); ok {
				return o, true
			}
		}
		return nil, false
	}
	if p := w.tpkgs[pkgPath]; p != nil {
		if o, ok := p.Scope().Lookup(name).(*types.Const); ok {
			return o, true
		}
	}
	for path, p := range w.tpkgs {
		if strings.HasPrefix(path, modPath) {
			if o, ok := p.Scope().Lookup(name).(*types.Const); ok {
				return o, true
			}
		}
	}
	return nil, false
}

// ---------------------------------------------------------------- functions

// funcKey is the contract key of an SSA function: pkgpath::RelString.
func funcKey(fn *ssa.Function) string {
	if fn.Pkg == nil {
		// synthetic or external without package (e.g. instantiated generics)
		if o := fn.Origin(); o != nil && o != fn {
			return funcKey(o)
		}
		return "::" + fn.String()
	}
	return fn.Pkg.Pkg.Path() + "::" + fn.RelString(fn.Pkg.Pkg)
}

// extKey is the contract key of an external function: "::" + full name.
func extKey(fn *ssa.Function) string {
	if o := fn.Origin(); o != nil && o != fn {
		fn = o
	}
	return "::" + fn.String()
}

func (w *World) contractFor(fn *ssa.Function) *FuncContract {
	if fc, ok := w.cons.Funcs["::"+strings.ReplaceAll(fn.String(), ",", "")]; ok {
		return fc
	}
	if fc, ok := w.cons.Funcs[funcKey(fn)]; ok {
		return fc
	}
	if fc, ok := w.cons.Funcs[extKey(fn)]; ok {
		return fc
	}
	if w.regContracts == nil {
		w.regContracts = map[*ssa.Function]*FuncContract{}
		for k, fc := range w.cons.Funcs {
			i := strings.Index(k, "::")
			if i > 0 && reRegKey.MatchString(k[i+2:]) {
				if f := w.resolveRegistryKey(k[:i], k[i+2:]); f != nil {
					w.regContracts[f] = fc
				}
			}
		}
	}
	if fc, ok := w.regContracts[fn]; ok {
		return fc
	}
	return nil
}

func (w *World) inRepo(fn *ssa.Function) bool {
	if fn.Pkg == nil {
		if p := fn.Parent(); p != nil {
			return w.inRepo(p)
		}
		return false
	}
	return strings.HasPrefix(fn.Pkg.Pkg.Path(), modPath)
}

// findFunc locates an SSA function by contract key.
func (w *World) findFunc(key string) *ssa.Function {
	i := strings.Index(key, "::")
	pkgPath, rel := key[:i], key[i+2:]
	sp := w.spkgs[pkgPath]
	if sp == nil {
		return nil
	}
	if fn := w.resolveRegistryKey(pkgPath, rel); fn != nil {
		return fn
	}
	var found *ssa.Function
	if strings.HasPrefix(rel, "init#") {
		for _, f := range w.explicitInits(pkgPath) {
			if f.Name() == rel {
				return f
			}
		}
		return nil
	}
	var visit func(fn *ssa.Function)
	visit = func(fn *ssa.Function) {
		if fn == nil || found != nil {
			return
		}
		if fn.RelString(sp.Pkg) == rel {
			found = fn
			return
		}
		for _, a := range fn.AnonFuncs {
			visit(a)
		}
	}
	for _, m := range sp.Members {
		switch m := m.(type) {
		case *ssa.Function:
			visit(m)
		case *ssa.Type:
			for _, t := range []types.Type{m.Type(), types.NewPointer(m.Type())} {
				ms := w.prog.MethodSets.MethodSet(t)
				for i := 0; i < ms.Len(); i++ {
					visit(w.prog.MethodValue(ms.At(i)))
				}
			}
		}
	}
	return found
}

// ---------------------------------------------------------------- prelude

// prelude: the background theory of every query.
//
// Intended model (the consistency argument; cover/prelude/pre is only a smoke test): SV is the set of
// byte sequences shorter than 2^48; sv(s) is the content of s when 0 <= len(s) < 2^48 (the empty
// sequence otherwise); svlen / svbyte / svcat are length, indexing and concatenation (svcat of two
// values whose lengths add up to 2^48 or more is unconstrained); strof(v) is some string of length
// |v| at offset 0 of an array holding v; strcmp is the lexicographic order; catarr(a,b) names an
// array holding the bytes of a followed by the bytes of b.  Every axiom that relates Str and SV is
// guarded by the 2^48 bound: without the guard, "svlen(sv s) = len s for all len s >= 0" contradicts
// "every value has a representative shorter than 2^48" (found by the must-fail corpus, see DESIGN.md).
func (w *World) prelude() string {
	var sb strings.Builder
	sb.WriteString(`(set-option :produce-models true)
(set-logic ALL)
(declare-datatypes ((Str 0)) (((mkstr (s.arr Int) (s.off Int) (s.len Int)))))
(declare-datatypes ((Slice 0)) (((mkslice (sl.arr Int) (sl.off Int) (sl.len Int) (sl.cap Int)))))
(declare-datatypes ((Iface 0)) (((mkiface (i.tag Int) (i.ref Int)))))
(declare-sort SV 0)
(declare-fun bytes (Int Int) (_ BitVec 8))
(declare-fun sv (Str) SV)
(declare-fun catarr (Str Str) Int)
(declare-fun svcat (SV SV) SV)
(declare-fun svlen (SV) Int)
(declare-fun svbyte (SV Int) (_ BitVec 8))
(declare-fun idx (Int Int) Int)
(assert (forall ((o Int) (i Int)) (! (= (idx o i) (+ o i)) :pattern ((idx o i)))))
(assert (forall ((s Str)) (! (=> (and (<= 0 (s.len s)) (< (s.len s) 281474976710656)) (= (svlen (sv s)) (s.len s))) :pattern ((sv s)))))
(assert (forall ((s Str) (i Int)) (! (=> (and (<= 0 i) (< i (s.len s)) (< (s.len s) 281474976710656)) (= (svbyte (sv s) i) (bytes (s.arr s) (idx (s.off s) i)))) :pattern ((svbyte (sv s) i)))))
(assert (forall ((a Str) (b Str) (i Int)) (! (and (=> (and (<= 0 i) (< i (s.len a))) (= (bytes (catarr a b) i) (bytes (s.arr a) (idx (s.off a) i)))) (=> (and (<= (s.len a) i) (< i (+ (s.len a) (s.len b)))) (= (bytes (catarr a b) i) (bytes (s.arr b) (idx (s.off b) (- i (s.len a))))))) :pattern ((bytes (catarr a b) i)))))
(assert (forall ((a Str) (b Str)) (! (=> (and (<= 0 (s.len a)) (<= 0 (s.len b)) (< (+ (s.len a) (s.len b)) 281474976710656)) (and (= (sv (mkstr (catarr a b) 0 (+ (s.len a) (s.len b)))) (svcat (sv a) (sv b))) (=> (= (s.len b) 0) (= (svcat (sv a) (sv b)) (sv a))) (=> (= (s.len a) 0) (= (svcat (sv a) (sv b)) (sv b))))) :pattern ((catarr a b)))))
(declare-fun strof (SV) Str)
(assert (forall ((v SV)) (! (and (= (sv (strof v)) v) (<= 0 (s.len (strof v))) (<= 0 (s.off (strof v))) (< (+ (s.off (strof v)) (s.len (strof v))) 281474976710656)) :pattern ((strof v)))))
(declare-fun strcmp (SV SV) Int)
(assert (forall ((a SV) (b SV)) (! (= (= (strcmp a b) 0) (= a b)) :pattern ((strcmp a b)))))
(assert (forall ((a SV) (b SV)) (! (= (< (strcmp a b) 0) (> (strcmp b a) 0)) :pattern ((strcmp a b)))))
(assert (forall ((a SV) (b SV) (c SV)) (! (=> (and (< (strcmp a b) 0) (< (strcmp b c) 0)) (< (strcmp a c) 0)) :pattern ((strcmp a b) (strcmp b c)))))
(declare-fun alive0 (Int) Bool)
(declare-fun aliveA0 (Int) Bool)
(define-fun b2i ((b Bool)) Int (ite b 1 0))
(define-fun max ((a Int) (b Int)) Int (ite (>= a b) a b))
(define-fun min ((a Int) (b Int)) Int (ite (<= a b) a b))
`)
	for _, wd := range []int{64, 32, 16, 8} {
		fmt.Fprintf(&sb, "(define-fun popcount%d ((x (_ BitVec %d))) Int (+", wd, wd)
		for i := 0; i < wd; i++ {
			fmt.Fprintf(&sb, " (ite (= ((_ extract %d %d) x) #b1) 1 0)", i, i)
		}
		sb.WriteString("))\n")
	}
	// integer <-> bit-vector bridges are uninterpreted; round-trip facts are
	// instantiated by the generator.
	for _, wd := range []int{8, 16, 32, 64} {
		fmt.Fprintf(&sb, "(declare-fun i2bv%d (Int) (_ BitVec %d))\n", wd, wd)
		fmt.Fprintf(&sb, "(declare-fun bv2is%d ((_ BitVec %d)) Int)\n", wd, wd)
		fmt.Fprintf(&sb, "(declare-fun bv2iu%d ((_ BitVec %d)) Int)\n", wd, wd)
	}
	xs := make([]string, 0, len(w.xsorts))
	for s := range w.xsorts {
		xs = append(xs, string(s))
	}
	sort.Strings(xs)
	for _, s := range xs {
		fmt.Fprintf(&sb, "(declare-sort %s 0)\n(declare-const zero!%s %s)\n", s, s, s)
	}
	sb.WriteString("(declare-fun unboxstr (Int) Str)\n")
	bs := make([]string, 0, len(w.boxSorts))
	for s := range w.boxSorts {
		bs = append(bs, string(s))
	}
	sort.Strings(bs)
	for _, s := range bs {
		fmt.Fprintf(&sb, "(declare-fun box!%s (%s) Int)\n(declare-fun unbox!%s (Int) %s)\n", smtName(s), s, smtName(s), s)
	}
	return sb.String()
}

// strConstFacts: bytes of the literals used.
func (w *World) strConstFacts(used map[int]bool) []*Term {
	var out []*Term
	for i, s := range w.strList {
		id := i + 1
		if !used[id] || s == "" {
			continue
		}
		for k := 0; k < len(s); k++ {
			out = append(out, Eq(App("bytes", BV(8), IntLit(int64(-id)), IntLit(int64(k))), BVLitU(uint64(s[k]), 8)))
		}
	}
	return out
}

// registerAllHeaps pre-registers the heap keys of every type that occurs in
// the repository's functions, so that contracts can name any of them.
func (w *World) registerAllHeaps() {
	w.regAllocKeys()
	seen := map[string]bool{}
	var visit func(t types.Type)
	visit = func(t types.Type) {
		if t == nil {
			return
		}
		k := t.String()
		if seen[k] {
			return
		}
		seen[k] = true
		defer func() { recover() }()
		switch u := types.Unalias(t).Underlying().(type) {
		case *types.Pointer:
			visit(u.Elem())
			if _, ok := w.repoStruct(u.Elem()); !ok {
				if _, isArr := types.Unalias(u.Elem()).Underlying().(*types.Array); !isArr && w.sortOf(u.Elem()) != "" {
					w.cellHeap(u.Elem())
				}
			}
		case *types.Slice:
			visit(u.Elem())
			if w.sortOf(u.Elem()) != "" {
				w.elemHeap(u.Elem())
			}
		case *types.Array:
			visit(u.Elem())
			if w.sortOf(u.Elem()) != "" {
				w.elemHeap(u.Elem())
			}
		case *types.Map:
			visit(u.Key())
			visit(u.Elem())
			if w.sortOf(u.Key()) != "" && w.sortOf(u.Elem()) != "" {
				w.mapHeaps(u)
			}
		case *types.Struct:
			if st, ok := w.repoStruct(t); ok {
				var reg func(prefix string, s *types.Struct)
				reg = func(prefix string, s *types.Struct) {
					for i := 0; i < s.NumFields(); i++ {
						f := s.Field(i)
						visit(f.Type())
						if sub, ok := w.repoStruct(f.Type()); ok {
							reg(prefix+"."+f.Name(), sub)
						} else if w.sortOf(f.Type()) != "" {
							w.fieldHeapP(prefix, s, i)
						}
					}
				}
				reg(structPrefix(t), st)
			}
		case *types.Tuple:
			for i := 0; i < u.Len(); i++ {
				visit(u.At(i).Type())
			}
		case *types.Signature:
			visit(u.Params())
			visit(u.Results())
		}
	}
	for path := range w.spkgs {
		if !strings.HasPrefix(path, modPath) {
			continue
		}
		for _, fn := range w.allFuncs(path) {
			for _, p := range fn.Params {
				visit(p.Type())
			}
			for _, b := range fn.Blocks {
				for _, ins := range b.Instrs {
					if v, ok := ins.(ssa.Value); ok {
						visit(v.Type())
					}
				}
			}
		}
	}
}
