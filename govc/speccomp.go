package main

// Compilation of contract expressions to SMT terms, typed with go/types.

import (
	"fmt"
	"go/constant"
	"go/token"
	"go/types"
	"math/big"
	"strconv"
	"strings"
)

// TV is a typed value: a scalar SMT term or a compound (struct/tuple) value.
type TV struct {
	T     *Term
	Ty    types.Type
	Fs    []TV           // compound
	Const constant.Value // untyped constant (T is nil until converted)
	Pred  func(env *Env, args []TV) (TV, error) // closure argument usable with callpred
}

func (v TV) isCompound() bool { return v.T == nil && v.Const == nil && v.Fs != nil }

type specSig struct {
	sf       *SpecFunc
	params   []types.Type
	result   types.Type
	heapKeys []string
	body     *Term
	name     string
	state    int // 0 new, 1 compiling, 2 done
	deps     []string
}

type Env struct {
	w      *World
	pkg    string
	vars   map[string]TV
	heap   func(key string) *Term
	old    func(key string) *Term
	lookup func(name string) (TV, bool)
	used   *Usage
	inOld  bool
}

// Usage records what a VC needs declared.
type Usage struct {
	specs map[string]bool
	strs  map[int]bool
	// conservative extensions introduced while compiling (fresh symbols
	// and their defining axioms), asserted with every obligation of the VC
	decls []string
	facts []*Term
}

func NewUsage() *Usage { return &Usage{specs: map[string]bool{}, strs: map[int]bool{}} }

var binderCounter int

func freshBinder(base string) string {
	binderCounter++
	return fmt.Sprintf("q!%s!%d", smtName(base), binderCounter)
}

type compErr string

func cfail(f string, a ...any) { panic(compErr(fmt.Sprintf(f, a...))) }

// Compile compiles e in env; errors are returned.
func (env *Env) Compile(e Expr) (tv TV, err error) {
	defer func() {
		if r := recover(); r != nil {
			if ce, ok := r.(compErr); ok {
				err = fmt.Errorf("%s", string(ce))
				return
			}
			panic(r)
		}
	}()
	return env.comp(e), nil
}

func (env *Env) CompileBool(e Expr) (*Term, error) {
	tv, err := env.Compile(e)
	if err != nil {
		return nil, err
	}
	if tv.T == nil || tv.T.Sort != SBool {
		return nil, fmt.Errorf("expected a boolean expression")
	}
	return tv.T, nil
}

func (env *Env) child() *Env {
	c := *env
	c.vars = map[string]TV{}
	for k, v := range env.vars {
		c.vars[k] = v
	}
	return &c
}

func (env *Env) curHeap(key string) *Term {
	if env.inOld && env.old != nil {
		return env.old(key)
	}
	return env.heap(key)
}

func (env *Env) comp(e Expr) TV {
	w := env.w
	switch x := e.(type) {
	case ELit:
		switch x.Kind {
		case "bool":
			if x.Val == "true" {
				return TV{T: True, Ty: types.Typ[types.Bool]}
			}
			return TV{T: False, Ty: types.Typ[types.Bool]}
		case "nil":
			return TV{Ty: types.Typ[types.UntypedNil], Const: constant.MakeBool(false)}
		case "int":
			v := constant.MakeFromLiteral(x.Val, token.INT, 0)
			if v.Kind() == constant.Unknown {
				cfail("bad integer literal %s", x.Val)
			}
			return TV{Ty: types.Typ[types.UntypedInt], Const: v}
		case "char":
			v := constant.MakeFromLiteral(x.Val, token.CHAR, 0)
			return TV{Ty: types.Typ[types.UntypedRune], Const: v}
		case "string":
			s, err := strconv.Unquote(x.Val)
			if err != nil {
				cfail("bad string literal %s", x.Val)
			}
			t := w.strConst(s)
			env.noteStr(s)
			return TV{T: t, Ty: types.Typ[types.String], Const: constant.MakeString(s)}
		}
	case EIdent:
		if v, ok := env.vars[x.Name]; ok {
			return v
		}
		if env.lookup != nil {
			if v, ok := env.lookup(x.Name); ok {
				return v
			}
		}
		if c, ok := w.lookupConst(x.Name, env.pkg); ok {
			return env.constTV(c)
		}
		cfail("unknown identifier %q", x.Name)
	case ESel:
		// package-qualified constant?
		if id, ok := x.X.(EIdent); ok {
			if _, isVar := env.vars[id.Name]; !isVar {
				if c, ok := w.lookupConst(id.Name+"."+x.Field, env.pkg); ok {
					if env.lookup == nil {
						return env.constTV(c)
					}
					if _, isLocal := env.lookup(id.Name); !isLocal {
						return env.constTV(c)
					}
				}
			}
		}
		if id, ok := x.X.(EIdent); ok && env.lookup != nil {
			if _, isVar := env.vars[id.Name]; !isVar {
				if _, isLocal := env.lookup(id.Name); !isLocal {
					if v, ok := env.lookup(id.Name + "." + x.Field); ok {
						return v
					}
				}
			}
		}
		base := env.comp(x.X)
		return env.selectField(base, x.Field)
	case EIndex:
		base := env.comp(x.X)
		return env.index(base, env.comp(x.I))
	case ESlice:
		base := env.comp(x.X)
		var lo, hi *Term
		if x.Lo != nil {
			lo = env.toSort(env.comp(x.Lo), types.Typ[types.Int]).T
		} else {
			lo = IntLit(0)
		}
		switch {
		case isString(base.Ty):
			if x.Hi != nil {
				hi = env.toSort(env.comp(x.Hi), types.Typ[types.Int]).T
			} else {
				hi = StrLen(base.T)
			}
			return TV{T: MkStr(StrArr(base.T), Add(StrOff(base.T), lo), Sub(hi, lo)), Ty: base.Ty}
		case base.T != nil && base.T.Sort == SSlice:
			if x.Hi != nil {
				hi = env.toSort(env.comp(x.Hi), types.Typ[types.Int]).T
			} else {
				hi = SlLen(base.T)
			}
			return TV{T: MkSlice(SlArr(base.T), Add(SlOff(base.T), lo), Sub(hi, lo), Sub(SlCap(base.T), lo)), Ty: base.Ty}
		}
		cfail("slice expression on %s", base.Ty)
	case EUn:
		v := env.comp(x.X)
		switch x.Op {
		case "!":
			v = env.needBool(v)
			return TV{T: Not(v.T), Ty: v.Ty}
		case "-":
			if v.Const != nil {
				return TV{Ty: v.Ty, Const: constant.UnaryOp(token.SUB, v.Const, 0)}
			}
			if v.T.Sort == SInt {
				return TV{T: Sub(IntLit(0), v.T), Ty: v.Ty}
			}
			return TV{T: App("bvneg", v.T.Sort, v.T), Ty: v.Ty}
		case "*":
			// *p: the scalar cell a pointer designates
			if v.T == nil || v.Ty == nil {
				cfail("* of constant")
			}
			pt, ok := types.Unalias(v.Ty).Underlying().(*types.Pointer)
			if !ok || env.w.sortOf(pt.Elem()) == "" {
				cfail("* needs a pointer to a scalar, got %s", v.Ty)
			}
			if _, isStruct := env.w.repoStruct(pt.Elem()); isStruct {
				cfail("* of a struct pointer: select a field instead")
			}
			return TV{T: Select(env.curHeap(env.w.cellHeap(pt.Elem())), v.T), Ty: pt.Elem()}
		case "^":
			if v.Const != nil {
				cfail("^ on untyped constant: convert first")
			}
			return TV{T: App("bvnot", v.T.Sort, v.T), Ty: v.Ty}
		}
	case EBin:
		return env.binop(x)
	case ECond:
		c := env.needBool(env.comp(x.C))
		a, b := env.comp(x.A), env.comp(x.B)
		a, b = env.unify(a, b)
		if a.isCompound() {
			cfail("conditional on compound values")
		}
		return TV{T: Ite(c.T, a.T, b.T), Ty: a.Ty}
	case EConv:
		return env.conv(x)
	case EQuant:
		return env.quant(x)
	case ECall:
		return env.call(x)
	}
	cfail("unsupported expression %T", e)
	return TV{}
}

func (env *Env) noteStr(s string) {
	if env.used != nil {
		env.used.strs[env.w.strIDs[s]] = true
	}
}

func (env *Env) constTV(c *types.Const) TV {
	t := c.Type()
	if isUntyped(t) {
		if c.Val().Kind() == constant.String {
			s := constant.StringVal(c.Val())
			env.noteStr(s)
			tm := env.w.strConst(s)
			env.noteStr(s)
			return TV{T: tm, Ty: types.Typ[types.String], Const: c.Val()}
		}
		return TV{Ty: t, Const: c.Val()}
	}
	if c.Val().Kind() == constant.String {
		s := constant.StringVal(c.Val())
		tm := env.w.strConst(s)
		env.noteStr(s)
		return TV{T: tm, Ty: t, Const: c.Val()}
	}
	return TV{T: env.w.constTerm(c.Val(), t), Ty: t}
}

func (env *Env) needBool(v TV) TV {
	if v.T == nil || v.T.Sort != SBool {
		cfail("expected boolean operand")
	}
	return v
}

// toSort converts an untyped constant to type t (or checks compatibility).
func (env *Env) toSort(v TV, t types.Type) TV {
	if v.T != nil {
		return v
	}
	if v.Const == nil {
		cfail("compound value where scalar expected")
	}
	if b, ok := v.Ty.(*types.Basic); ok && b.Kind() == types.UntypedNil {
		s := env.w.sortOf(t)
		return TV{T: env.w.zeroOfSort(s), Ty: t}
	}
	return TV{T: env.w.constTerm(v.Const, t), Ty: t}
}

// unify brings two operands to a common type.
func (env *Env) unify(a, b TV) (TV, TV) {
	switch {
	case a.T == nil && a.Const != nil && b.T != nil:
		a = env.toSort(a, b.Ty)
	case b.T == nil && b.Const != nil && a.T != nil:
		b = env.toSort(b, a.Ty)
	case a.T == nil && a.Const != nil && b.T == nil && b.Const != nil:
		a = env.toSort(a, types.Typ[types.Int])
		b = env.toSort(b, types.Typ[types.Int])
	}
	if a.T != nil && b.T != nil && a.T.Sort != b.T.Sort {
		cfail("operand sorts differ: %s (%s) vs %s (%s)", a.T.Sort, a.Ty, b.T.Sort, b.Ty)
	}
	return a, b
}

func (env *Env) binop(x EBin) TV {
	boolT := types.Typ[types.Bool]
	switch x.Op {
	case "&&", "||", "==>", "<==>":
		l := env.needBool(env.comp(x.L))
		r := env.needBool(env.comp(x.R))
		switch x.Op {
		case "&&":
			return TV{T: And(l.T, r.T), Ty: boolT}
		case "||":
			return TV{T: Or(l.T, r.T), Ty: boolT}
		case "==>":
			return TV{T: Implies(l.T, r.T), Ty: boolT}
		default:
			return TV{T: Eq(l.T, r.T), Ty: boolT}
		}
	}
	l, r := env.comp(x.L), env.comp(x.R)
	// constant folding of two untyped constants
	if l.T == nil && r.T == nil && l.Const != nil && r.Const != nil && !isNilTV(l) && !isNilTV(r) {
		if tok, ok := arithTok[x.Op]; ok {
			if x.Op == "<<" || x.Op == ">>" {
				s, _ := constant.Uint64Val(r.Const)
				return TV{Ty: l.Ty, Const: constant.Shift(l.Const, tok, uint(s))}
			}
			if x.Op == "/" {
				tok = token.QUO_ASSIGN // integer division
			}
			return TV{Ty: l.Ty, Const: constant.BinaryOp(l.Const, tok, r.Const)}
		}
		if tok, ok := cmpTok[x.Op]; ok {
			if constant.Compare(l.Const, tok, r.Const) {
				return TV{T: True, Ty: boolT}
			}
			return TV{T: False, Ty: boolT}
		}
	}
	switch x.Op {
	case "==", "!=", "===", "!==":
		t := env.equal(l, r, x.Op == "===" || x.Op == "!==")
		if x.Op == "!=" || x.Op == "!==" {
			t = Not(t)
		}
		return TV{T: t, Ty: boolT}
	case "<", "<=", ">", ">=":
		l, r = env.unify(l, r)
		if l.T.Sort == SInt || l.T.Sort == SReal {
			return TV{T: cmpInt(x.Op, l.T, r.T), Ty: boolT}
		}
		if l.T.Sort.BVWidth() == 0 {
			cfail("ordering comparison on %s", l.T.Sort)
		}
		op := map[string]string{"<": "bvult", "<=": "bvule", ">": "bvugt", ">=": "bvuge"}[x.Op]
		if isSigned(l.Ty) {
			op = map[string]string{"<": "bvslt", "<=": "bvsle", ">": "bvsgt", ">=": "bvsge"}[x.Op]
		}
		return TV{T: App(op, SBool, l.T, r.T), Ty: boolT}
	case "<<", ">>":
		if l.T == nil {
			cfail("shift of untyped constant: convert first")
		}
		r = env.toSort(r, l.Ty)
		if l.T.Sort == SInt {
			cfail("shift on int unsupported in contracts")
		}
		if r.T.Sort != l.T.Sort {
			cfail("shift count sort mismatch")
		}
		op := "bvshl"
		if x.Op == ">>" {
			op = "bvlshr"
			if isSigned(l.Ty) {
				op = "bvashr"
			}
		}
		return TV{T: App(op, l.T.Sort, l.T, r.T), Ty: l.Ty}
	}
	l, r = env.unify(l, r)
	if l.T == nil {
		cfail("bad operands for %s", x.Op)
	}
	s := l.T.Sort
	if s == SStr && x.Op == "+" {
		cfail("string concatenation is not supported in contracts; use concat3/… spec relations")
	}
	if s == SInt {
		switch x.Op {
		case "+":
			return TV{T: Add(l.T, r.T), Ty: l.Ty}
		case "-":
			return TV{T: Sub(l.T, r.T), Ty: l.Ty}
		case "*":
			return TV{T: App("*", SInt, l.T, r.T), Ty: l.Ty}
		case "/":
			return TV{T: App("div", SInt, l.T, r.T), Ty: l.Ty}
		case "%":
			return TV{T: App("mod", SInt, l.T, r.T), Ty: l.Ty}
		}
		cfail("operator %s on int", x.Op)
	}
	if s.BVWidth() > 0 {
		var op string
		switch x.Op {
		case "+":
			op = "bvadd"
		case "-":
			op = "bvsub"
		case "*":
			op = "bvmul"
		case "&":
			op = "bvand"
		case "|":
			op = "bvor"
		case "^":
			op = "bvxor"
		case "&^":
			return TV{T: App("bvand", s, l.T, App("bvnot", s, r.T)), Ty: l.Ty}
		case "/":
			op = "bvudiv"
			if isSigned(l.Ty) {
				op = "bvsdiv"
			}
		case "%":
			op = "bvurem"
			if isSigned(l.Ty) {
				op = "bvsrem"
			}
		default:
			cfail("operator %s on bit-vector", x.Op)
		}
		return TV{T: App(op, s, l.T, r.T), Ty: l.Ty}
	}
	cfail("operator %s on sort %s", x.Op, s)
	return TV{}
}

var arithTok = map[string]token.Token{"+": token.ADD, "-": token.SUB, "*": token.MUL, "/": token.QUO, "%": token.REM,
	"&": token.AND, "|": token.OR, "^": token.XOR, "&^": token.AND_NOT, "<<": token.SHL, ">>": token.SHR}
var cmpTok = map[string]token.Token{"==": token.EQL, "!=": token.NEQ, "<": token.LSS, "<=": token.LEQ, ">": token.GTR, ">=": token.GEQ}

func isNilTV(v TV) bool {
	b, ok := v.Ty.(*types.Basic)
	return ok && b.Kind() == types.UntypedNil
}

// strEq is Go string equality.  A comparison with a literal unfolds to
// length + bytes; otherwise it is equality of abstract string values.
func (env *Env) strEq(a, b TV) *Term {
	return strEqTerms(env.w, a.T, b.T)
}

// strLitOf recognises the term of a string literal.
func (w *World) strLitOf(t *Term) (string, bool) {
	if t.Op != "mkstr" || len(t.Args) != 3 {
		return "", false
	}
	id, ok := t.Args[0].IntVal()
	off, ok2 := t.Args[1].IntVal()
	n, ok3 := t.Args[2].IntVal()
	if !ok || !ok2 || !ok3 || off != 0 {
		return "", false
	}
	if id == 0 && n == 0 {
		return "", true
	}
	if id < 0 && int(-id) <= len(w.strList) && int64(len(w.strList[-id-1])) == n {
		return w.strList[-id-1], true
	}
	return "", false
}

func strEqTerms(w *World, a, b *Term) *Term {
	la, aok := w.strLitOf(a)
	lb, bok := w.strLitOf(b)
	switch {
	case aok && bok:
		if la == lb {
			return True
		}
		return False
	case bok:
		return strEqLit(a, lb)
	case aok:
		return strEqLit(b, la)
	}
	return Eq(App("sv", "SV", a), App("sv", "SV", b))
}

func strEqLit(a *Term, lit string) *Term {
	cs := []*Term{Eq(StrLen(a), IntLit(int64(len(lit))))}
	for k := 0; k < len(lit); k++ {
		cs = append(cs, Eq(App("bytes", BV(8), StrArr(a), Idx(StrOff(a), IntLit(int64(k)))), BVLitU(uint64(lit[k]), 8)))
	}
	return And(cs...)
}

func (env *Env) equal(l, r TV, raw bool) *Term {
	if l.isCompound() || r.isCompound() {
		if !l.isCompound() || !r.isCompound() || len(l.Fs) != len(r.Fs) {
			cfail("comparison of compound with non-compound value")
		}
		var cs []*Term
		for i := range l.Fs {
			cs = append(cs, env.equal(l.Fs[i], r.Fs[i], raw))
		}
		return And(cs...)
	}
	// nil comparisons
	if isNilTV(l) && r.T != nil {
		return env.isNil(r)
	}
	if isNilTV(r) && l.T != nil {
		return env.isNil(l)
	}
	l, r = env.unify(l, r)
	if l.T == nil {
		cfail("cannot compare")
	}
	if l.T.Sort == SStr && !raw {
		return env.strEq(l, r)
	}
	if l.T.Sort == SSlice && !raw {
		cfail("slices can only be compared to nil (use === for header identity)")
	}
	return Eq(l.T, r.T)
}

func (env *Env) isNil(v TV) *Term {
	switch v.T.Sort {
	case SInt:
		return Eq(v.T, IntLit(0))
	case SSlice:
		return Eq(SlArr(v.T), IntLit(0))
	case SIface:
		return Eq(IfTag(v.T), IntLit(0))
	}
	cfail("nil comparison on sort %s", v.T.Sort)
	return nil
}

func (env *Env) selectField(base TV, field string) TV {
	w := env.w
	if base.isCompound() {
		// tuple component .0 .1 or struct field
		if n, err := strconv.Atoi(field); err == nil {
			if n < 0 || n >= len(base.Fs) {
				cfail("tuple index %d out of range", n)
			}
			return base.Fs[n]
		}
		if st, ok := w.repoStruct(base.Ty); ok {
			for i := 0; i < st.NumFields(); i++ {
				if st.Field(i).Name() == field {
					return base.Fs[i]
				}
			}
		}
		cfail("no field %s in compound value of type %s", field, base.Ty)
	}
	if base.T == nil {
		cfail("field selection on constant")
	}
	pt, ok := types.Unalias(base.Ty).Underlying().(*types.Pointer)
	if !ok {
		cfail("field selection .%s on non-pointer type %s", field, base.Ty)
	}
	st, ok := w.repoStruct(pt.Elem())
	if !ok {
		cfail("field selection on pointer to non-repo struct %s", pt.Elem())
	}
	for i := 0; i < st.NumFields(); i++ {
		if st.Field(i).Name() == field {
			return env.loadField(base.T, pt.Elem(), st, i)
		}
	}
	cfail("type %s has no field %s", pt.Elem(), field)
	return TV{}
}

// loadField reads field i of the struct at ref (flattening nested repo structs).
func (env *Env) loadField(ref *Term, named types.Type, st *types.Struct, i int) TV {
	return env.loadFieldP(ref, structPrefix(named), st, i)
}

func (env *Env) loadFieldP(ref *Term, prefix string, st *types.Struct, i int) TV {
	w := env.w
	ft := st.Field(i).Type()
	if sub, ok := w.repoStruct(ft); ok {
		var fs []TV
		for j := 0; j < sub.NumFields(); j++ {
			fs = append(fs, env.loadFieldP(ref, prefix+"."+st.Field(i).Name(), sub, j))
		}
		return TV{Fs: fs, Ty: ft}
	}
	key := w.fieldHeapP(prefix, st, i)
	return TV{T: Select(env.curHeap(key), ref), Ty: ft}
}

func (env *Env) index(base, idx TV) TV {
	w := env.w
	if base.T == nil {
		cfail("index on constant")
	}
	switch u := types.Unalias(base.Ty).Underlying().(type) {
	case *types.Basic:
		if u.Info()&types.IsString != 0 {
			i := env.toSort(idx, types.Typ[types.Int])
			if i.T.Sort != SInt {
				cfail("string index must be int")
			}
			return TV{T: App("bytes", BV(8), StrArr(base.T), Idx(StrOff(base.T), i.T)), Ty: types.Typ[types.Uint8]}
		}
	case *types.Slice:
		i := env.toSort(idx, types.Typ[types.Int])
		if i.T.Sort != SInt {
			cfail("slice index must be int")
		}
		key := w.elemHeap(u.Elem())
		return TV{T: Select(Select(env.curHeap(key), SlArr(base.T)), Idx(SlOff(base.T), i.T)), Ty: u.Elem()}
	case *types.Map:
		mv, _ := w.mapHeaps(u)
		k := env.toSort(idx, u.Key())
		kt := k.T
		if kt.Sort == SStr {
			kt = App("sv", "SV", kt)
		}
		return TV{T: Select(Select(env.curHeap(mv), base.T), kt), Ty: u.Elem()}
	}
	cfail("index on type %s", base.Ty)
	return TV{}
}

func (env *Env) conv(x EConv) TV {
	w := env.w
	v := env.comp(x.X)
	var to types.Type
	name := x.Type
	if name == "byte" {
		name = "uint8"
	}
	if name == "rune" {
		name = "int32"
	}
	tn, ok := types.Universe.Lookup(name).(*types.TypeName)
	if !ok {
		cfail("unknown conversion type %s", x.Type)
	}
	to = tn.Type()
	if v.T == nil {
		return env.toSort(v, to)
	}
	return TV{T: convertTerm(w, v.T, v.Ty, to), Ty: to}
}

// convertTerm implements Go numeric conversion between modelled sorts.
func convertTerm(w *World, t *Term, from, to types.Type) *Term {
	fs, ts := w.sortOf(from), w.sortOf(to)
	if fs == ts {
		return t
	}
	fw, tw := fs.BVWidth(), ts.BVWidth()
	switch {
	case fw > 0 && tw > 0:
		if tw < fw {
			return App(fmt.Sprintf("(_ extract %d 0)", tw-1), ts, t)
		}
		if v, ok := t.BVVal(); ok && !isSigned(from) {
			return BVLit(v, tw)
		}
		ext := "zero_extend"
		if isSigned(from) {
			ext = "sign_extend"
		}
		return App(fmt.Sprintf("(_ %s %d)", ext, tw-fw), ts, t)
	case fw > 0 && ts == SInt:
		if v, ok := t.BVVal(); ok {
			if isSigned(from) && v.Bit(fw-1) == 1 {
				v = new(big.Int).Sub(v, new(big.Int).Lsh(big.NewInt(1), uint(fw)))
			}
			return BigIntLit(v)
		}
		if isSigned(from) {
			return App(fmt.Sprintf("bv2is%d", fw), SInt, t)
		}
		return App(fmt.Sprintf("bv2iu%d", fw), SInt, t)
	case fs == SInt && tw > 0:
		if v, ok := t.IntVal(); ok {
			return BVLit(big.NewInt(v), tw)
		}
		return App(fmt.Sprintf("i2bv%d", tw), ts, t)
	case fs == SInt && ts == SReal:
		return App("to_real", SReal, t)
	case fs == SReal && ts == SInt:
		return App("to_int", SInt, t)
	}
	panic(fmt.Sprintf("convertTerm: %s -> %s unsupported", from, to))
}

func (env *Env) quant(x EQuant) TV {
	c := env.child()
	var binders []Binder
	var guards []*Term
	for _, qv := range x.Vars {
		var ty types.Type
		if qv.Type == "" {
			ty = types.Typ[types.Int]
		} else {
			t, err := env.w.resolveType(qv.Type, env.pkg)
			if err != nil {
				cfail("%v", err)
			}
			ty = t
		}
		s := env.w.sortOf(ty)
		if s == "" {
			cfail("quantifier over compound type %s", ty)
		}
		nm := freshBinder(qv.Name)
		c.vars[qv.Name] = TV{T: Sym(nm, s), Ty: ty}
		binders = append(binders, Binder{nm, s})
		if qv.Lo != nil {
			lo := c.toSort(c.comp(qv.Lo), types.Typ[types.Int])
			hi := c.toSort(c.comp(qv.Hi), types.Typ[types.Int])
			guards = append(guards, Le(lo.T, Sym(nm, s)), Lt(Sym(nm, s), hi.T))
		}
	}
	body := c.needBool(c.comp(x.Body))
	var t *Term
	if x.Forall {
		t = Forall(binders, Implies(And(guards...), body.T))
	} else {
		t = Exists(binders, And(append(guards, body.T)...))
	}
	return TV{T: t, Ty: types.Typ[types.Bool]}
}

func (env *Env) call(x ECall) TV {
	w := env.w
	intT, boolT := types.Typ[types.Int], types.Typ[types.Bool]
	switch x.Fn {
	case "old":
		if len(x.Args) != 1 {
			cfail("old takes one argument")
		}
		c := *env
		c.inOld = true
		if v, ok := env.vars["old!"+exprKey(x.Args[0])]; ok {
			return v
		}
		return c.comp(x.Args[0])
	case "len", "cap":
		if len(x.Args) != 1 {
			cfail("%s takes one argument", x.Fn)
		}
		v := env.comp(x.Args[0])
		if v.T == nil {
			cfail("%s of constant", x.Fn)
		}
		switch v.T.Sort {
		case SStr:
			return TV{T: StrLen(v.T), Ty: intT}
		case SSlice:
			if x.Fn == "cap" {
				return TV{T: SlCap(v.T), Ty: intT}
			}
			return TV{T: SlLen(v.T), Ty: intT}
		}
		cfail("%s on sort %s", x.Fn, v.T.Sort)
	case "perm":
		// perm(a, b): slice a is a rearrangement of slice b.  Compiled to a
		// fresh proposition P together with "P implies a bijection exists"
		// (fresh index functions, inverse to each other so that E-matching
		// terminates).  Nothing implies P: it is usable in assumed
		// contracts only, and unprovable as a goal.
		if len(x.Args) != 2 || env.used == nil {
			cfail("perm(a, b)")
		}
		c := env.child()
		kn, jn := freshBinder("pk"), freshBinder("pj")
		k, j := Sym(kn, SInt), Sym(jn, SInt)
		c.vars["$pk"] = TV{T: k, Ty: intT}
		c.vars["$pj"] = TV{T: j, Ty: intT}
		ak := c.comp(EIndex{x.Args[0], EIdent{"$pk"}})
		var bjE Expr = EIndex{x.Args[1], EIdent{"$pj"}}
		if oc, ok := x.Args[1].(ECall); ok && oc.Fn == "old" && len(oc.Args) == 1 {
			bjE = ECall{"old", []Expr{EIndex{oc.Args[0], EIdent{"$pj"}}}} // the elements are read in the old heap too
		}
		bj := c.comp(bjE)
		la := c.comp(ECall{"len", []Expr{x.Args[0]}})
		lb := c.comp(ECall{"len", []Expr{x.Args[1]}})
		if ak.T == nil || bj.T == nil || ak.T.Sort != bj.T.Sort {
			cfail("perm: element types must be scalar and equal")
		}
		binderCounter++
		fn, gn, pn := fmt.Sprintf("perm!f!%d", binderCounter), fmt.Sprintf("perm!g!%d", binderCounter), fmt.Sprintf("perm!p!%d", binderCounter)
		env.used.decls = append(env.used.decls, "(declare-fun "+fn+" (Int) Int)", "(declare-fun "+gn+" (Int) Int)", "(declare-const "+pn+" Bool)")
		P := Sym(pn, SBool)
		aAt := func(t *Term) *Term { return Subst(ak.T, map[string]*Term{kn: t}) }
		bAt := func(t *Term) *Term { return Subst(bj.T, map[string]*Term{jn: t}) }
		fk, gj := App(fn, SInt, k), App(gn, SInt, j)
		env.used.facts = append(env.used.facts,
			Implies(P, Eq(la.T, lb.T)),
			Forall([]Binder{{kn, SInt}}, Implies(And(P, Le(IntLit(0), k), Lt(k, la.T)),
				And(Le(IntLit(0), fk), Lt(fk, la.T), Eq(aAt(k), bAt(fk)), Eq(App(gn, SInt, fk), k))), []*Term{aAt(k)}),
			Forall([]Binder{{jn, SInt}}, Implies(And(P, Le(IntLit(0), j), Lt(j, la.T)),
				And(Le(IntLit(0), gj), Lt(gj, la.T), Eq(aAt(gj), bAt(j)), Eq(App(fn, SInt, gj), j))), []*Term{bAt(j)}))
		return TV{T: P, Ty: boolT}
	case "zero":
		// zero("T"): the zero value of a (scalar or opaque) type
		if len(x.Args) != 1 {
			cfail("zero(\"type\")")
		}
		lit, ok := x.Args[0].(ELit)
		if !ok || lit.Kind != "string" {
			cfail("zero(\"type\")")
		}
		tn, _ := strconv.Unquote(lit.Val)
		ty, err := w.resolveType(tn, env.pkg)
		if err != nil {
			cfail("%v", err)
		}
		zs := w.sortOf(ty)
		if zs == "" {
			cfail("zero of compound type %s", ty)
		}
		return TV{T: w.zeroOfSort(zs), Ty: ty}
	case "refof":
		// refof(iface): the object reference an interface value holds (whatever its dynamic type)
		if len(x.Args) != 1 {
			cfail("refof(iface)")
		}
		v := env.comp(x.Args[0])
		if v.T == nil || v.T.Sort != SIface {
			cfail("refof(iface)")
		}
		return TV{T: IfRef(v.T), Ty: types.NewPointer(types.NewStruct(nil, nil))}
	case "owned":
		// owned(p): p was taken from a pool by the current thread and not put back yet (ghost)
		if len(x.Args) != 1 {
			cfail("owned(obj)")
		}
		v := env.comp(x.Args[0])
		if v.T == nil || v.T.Sort != SInt {
			cfail("owned: not an object reference")
		}
		w.regHeap(ownKey, ArrSort(SInt, SBool), nil)
		return TV{T: Select(env.curHeap(ownKey), v.T), Ty: boolT}
	case "ghost":
		// ghost(p): the ghost integer cell attached to object p (written only through contracts)
		if len(x.Args) != 1 {
			cfail("ghost(obj)")
		}
		v := env.comp(x.Args[0])
		if v.T == nil || v.T.Sort != SInt {
			cfail("ghost: not an object reference")
		}
		return TV{T: Select(env.curHeap("GH:int"), v.T), Ty: intT}
	case "byteat":
		// byteat(a, k): the byte at absolute position k of string storage a (s[i] is byteat(arr(s), off(s)+i))
		if len(x.Args) != 2 {
			cfail("byteat(arr, pos)")
		}
		a := env.toSort(env.comp(x.Args[0]), intT)
		k := env.toSort(env.comp(x.Args[1]), intT)
		return TV{T: App("bytes", BV(8), a.T, k.T), Ty: types.Typ[types.Uint8]}
	case "b2i":
		v := env.needBool(env.comp(x.Args[0]))
		return TV{T: Ite(v.T, IntLit(1), IntLit(0)), Ty: intT}
	case "max", "min":
		a, b := env.unify(env.comp(x.Args[0]), env.comp(x.Args[1]))
		return TV{T: App(x.Fn, SInt, a.T, b.T), Ty: intT}
	case "popcount64", "popcount32", "popcount16", "popcount8":
		v := env.comp(x.Args[0])
		if v.T == nil {
			cfail("popcount of constant")
		}
		want := map[string]int{"popcount64": 64, "popcount32": 32, "popcount16": 16, "popcount8": 8}[x.Fn]
		if v.T.Sort.BVWidth() != want {
			cfail("%s on %s", x.Fn, v.T.Sort)
		}
		return TV{T: App(x.Fn, SInt, v.T), Ty: intT}
	case "fresh", "alive":
		// fresh(x): allocated now but not at function entry; alive(x): allocated at entry
		v := env.comp(x.Args[0])
		if v.T == nil {
			cfail("%s of constant", x.Fn)
		}
		oldH := env.old
		if oldH == nil {
			// inside a spec function: "entry" allocation state is a parameter
			oldH = func(k string) *Term { return env.heap(k + "@entry") }
		}
		var al *Term
		switch v.T.Sort {
		case SInt:
			al = Select(oldH(alKey), v.T)
			if x.Fn == "fresh" {
				return TV{T: And(Not(Eq(v.T, IntLit(0))), Not(al), Select(env.heap(alKey), v.T)), Ty: boolT}
			}
		case SSlice:
			al = Select(oldH(alAKey), SlArr(v.T))
			if x.Fn == "fresh" {
				return TV{T: And(Not(Eq(SlArr(v.T), IntLit(0))), Not(al), Select(env.heap(alAKey), SlArr(v.T))), Ty: boolT}
			}
		default:
			cfail("%s on sort %s", x.Fn, v.T.Sort)
		}
		return TV{T: al, Ty: boolT}
	case "arr":
		v := env.comp(x.Args[0])
		switch v.T.Sort {
		case SSlice:
			return TV{T: SlArr(v.T), Ty: intT}
		case SStr:
			return TV{T: StrArr(v.T), Ty: intT}
		}
		cfail("arr on sort %s", v.T.Sort)
	case "off":
		v := env.comp(x.Args[0])
		switch v.T.Sort {
		case SSlice:
			return TV{T: SlOff(v.T), Ty: intT}
		case SStr:
			return TV{T: StrOff(v.T), Ty: intT}
		}
		cfail("off on sort %s", v.T.Sort)
	case "box":
		// box(x): the interface value holding x (static type of x is the dynamic type)
		v := env.comp(x.Args[0])
		if v.T == nil {
			cfail("box of constant/compound")
		}
		if _, isPtr := types.Unalias(v.Ty).Underlying().(*types.Pointer); !isPtr {
			cfail("box is only supported for pointers")
		}
		return TV{T: Ite(Eq(v.T, IntLit(0)), MkIface(IntLit(int64(w.tagOf(v.Ty))), IntLit(0)), MkIface(IntLit(int64(w.tagOf(v.Ty))), v.T)),
			Ty: types.NewInterfaceType(nil, nil)}
	case "unbox":
		// unbox(iface, "T"): the value of dynamic type T held by the interface
		v := env.comp(x.Args[0])
		lit, ok := x.Args[1].(ELit)
		if !ok || lit.Kind != "string" || v.T == nil || v.T.Sort != SIface {
			cfail("unbox(iface, \"type\")")
		}
		tn, _ := strconv.Unquote(lit.Val)
		ty, err := w.resolveType(tn, env.pkg)
		if err != nil {
			cfail("%v", err)
		}
		if _, isPtr := types.Unalias(ty).Underlying().(*types.Pointer); isPtr {
			return TV{T: IfRef(v.T), Ty: ty}
		}
		so := w.sortOf(ty)
		if so == SStr {
			return TV{T: App("unboxstr", SStr, IfRef(v.T)), Ty: ty}
		}
		if so == "" {
			cfail("unbox of compound type")
		}
		w.boxSorts[so] = true
		return TV{T: App("unbox!"+smtName(string(so)), so, IfRef(v.T)), Ty: ty}
	case "callpred":
		// callpred(f, args…): the result expression of the contract of the
		// closure passed as argument f, applied to args
		if len(x.Args) < 1 {
			cfail("callpred(f, args…)")
		}
		id, ok := x.Args[0].(EIdent)
		if !ok {
			cfail("callpred: first argument must name a function-valued parameter")
		}
		fv, ok := env.vars[id.Name]
		if !ok || fv.Pred == nil {
			cfail("callpred: %s is not a closure with a contract of the form `ensures result == e`", id.Name)
		}
		var as []TV
		for _, a := range x.Args[1:] {
			as = append(as, env.comp(a))
		}
		r, err := fv.Pred(env, as)
		if err != nil {
			cfail("callpred: %v", err)
		}
		return r
	case "cat":
		a, b := env.comp(x.Args[0]), env.comp(x.Args[1])
		if a.T == nil || b.T == nil || a.T.Sort != SStr || b.T.Sort != SStr {
			cfail("cat(string, string)")
		}
		return TV{T: CatStr(a.T, b.T), Ty: types.Typ[types.String]}
	case "strless":
		// lexicographic order on the abstract string values (a total order: prelude axioms)
		a, b := env.comp(x.Args[0]), env.comp(x.Args[1])
		if a.T == nil || b.T == nil || a.T.Sort != SStr || b.T.Sort != SStr {
			cfail("strless(string, string)")
		}
		return TV{T: Lt(App("strcmp", SInt, App("sv", "SV", a.T), App("sv", "SV", b.T)), IntLit(0)), Ty: boolT}
	case "wfi":
		// wfi(x): the interface value holds a non-nil pointer
		v := env.comp(x.Args[0])
		if v.T == nil || v.T.Sort != SIface {
			cfail("wfi(interface)")
		}
		return TV{T: And(Not(Eq(IfTag(v.T), IntLit(0))), Gt(IfRef(v.T), IntLit(0))), Ty: boolT}
	case "typeis":
		// typeis(iface, "T") : dynamic type test
		v := env.comp(x.Args[0])
		lit, ok := x.Args[1].(ELit)
		if !ok || lit.Kind != "string" || v.T == nil || v.T.Sort != SIface {
			cfail("typeis(iface, \"type\")")
		}
		s, _ := strconv.Unquote(lit.Val)
		ty, err := w.resolveType(s, env.pkg)
		if err != nil {
			cfail("%v", err)
		}
		return TV{T: Eq(IfTag(v.T), IntLit(int64(w.tagOf(ty)))), Ty: boolT}
	case "ptrof":
		// ptrof(iface): the pointer payload of an interface holding a pointer
		v := env.comp(x.Args[0])
		if v.T == nil || v.T.Sort != SIface {
			cfail("ptrof(iface)")
		}
		lit, ok := x.Args[1].(ELit)
		if !ok {
			cfail("ptrof(iface, \"*T\")")
		}
		s, _ := strconv.Unquote(lit.Val)
		ty, err := w.resolveType(s, env.pkg)
		if err != nil {
			cfail("%v", err)
		}
		return TV{T: IfRef(v.T), Ty: ty}
	case "hasmap":
		// hasmap(m, k): key presence
		m := env.comp(x.Args[0])
		mt, ok := types.Unalias(m.Ty).Underlying().(*types.Map)
		if !ok {
			cfail("hasmap on non-map")
		}
		_, mh := w.mapHeaps(mt)
		k := env.toSort(env.comp(x.Args[1]), mt.Key())
		kt := k.T
		if kt.Sort == SStr {
			kt = App("sv", "SV", kt)
		}
		return TV{T: Select(Select(env.curHeap(mh), m.T), kt), Ty: boolT}
	}
	sig, err := w.specSig(x.Fn)
	if err != nil {
		cfail("%v", err)
	}
	if len(x.Args) != len(sig.params) {
		cfail("spec %s expects %d arguments, got %d", x.Fn, len(sig.params), len(x.Args))
	}
	var args []*Term
	for _, k := range sig.heapKeys {
		if strings.HasSuffix(k, "@entry") {
			if env.old != nil {
				args = append(args, env.old(strings.TrimSuffix(k, "@entry")))
			} else {
				args = append(args, env.heap(k))
			}
			continue
		}
		args = append(args, env.curHeap(k))
	}
	for i, a := range x.Args {
		v := env.toSort(env.comp(a), sig.params[i])
		if v.T == nil {
			cfail("spec %s: compound argument", x.Fn)
		}
		if want := w.sortOf(sig.params[i]); v.T.Sort != want {
			cfail("spec %s: argument %d has sort %s, want %s", x.Fn, i+1, v.T.Sort, want)
		}
		if sig.sf.Valued && v.T.Sort == SStr {
			args = append(args, App("sv", "SV", v.T))
			continue
		}
		args = append(args, v.T)
	}
	if sig.sf.Inline && sig.body != nil {
		bs := w.specBinders(sig)
		m := map[string]*Term{}
		for i, b := range bs {
			m[b.Name] = args[i]
		}
		if env.used != nil {
			for _, d := range sig.deps {
				env.used.specs[d] = true
			}
		}
		return TV{T: expandBounded(renameBound(Subst(sig.body, m))), Ty: sig.result}
	}
	if env.used != nil {
		env.used.specs[x.Fn] = true
	}
	rs := w.sortOf(sig.result)
	if len(args) == 0 {
		return TV{T: Sym(sig.name, rs), Ty: sig.result}
	}
	if sig.sf.Valued && rs == SStr {
		// a string-valued function of values: some string with that value
		return TV{T: App("strof", SStr, App(sig.name, "SV", args...)), Ty: sig.result}
	}
	return TV{T: App(sig.name, rs, args...), Ty: sig.result}
}

func exprKey(e Expr) string { return fmt.Sprintf("%#v", e) }

// ---------------------------------------------------------------- spec functions

func (w *World) specSig(name string) (*specSig, error) {
	if s, ok := w.specSigs[name]; ok {
		if s.state == 1 && !s.sf.Rec {
			return nil, fmt.Errorf("spec %s is recursive but not declared rec", name)
		}
		return s, nil
	}
	sf, ok := w.cons.Specs[name]
	if !ok {
		return nil, fmt.Errorf("unknown function %q in contract expression", name)
	}
	sig := &specSig{sf: sf, name: "spec!" + smtName(name), state: 1}
	w.specSigs[name] = sig
	for _, p := range sf.Params {
		t, err := w.resolveType(p.Type, sf.Pkg)
		if err != nil {
			return nil, fmt.Errorf("%s:%d: spec %s: %v", sf.File, sf.Line, name, err)
		}
		if w.sortOf(t) == "" {
			return nil, fmt.Errorf("spec %s: compound parameter type %s", name, t)
		}
		sig.params = append(sig.params, t)
	}
	rt, err := w.resolveType(sf.Result, sf.Pkg)
	if err != nil {
		return nil, fmt.Errorf("%s:%d: spec %s: %v", sf.File, sf.Line, name, err)
	}
	sig.result = rt
	if sf.Uninter {
		for _, k := range sf.Reads {
			if _, ok := w.heapSort[k]; !ok {
				return nil, fmt.Errorf("%s:%d: spec %s: unknown heap %s", sf.File, sf.Line, name, k)
			}
			sig.heapKeys = append(sig.heapKeys, k)
		}
		sig.state = 2
		return sig, nil
	}
	// compile the body; heap reads are collected as parameters.  Recursive
	// functions are compiled twice so that self-calls pass the full key set.
	compileOnce := func() error {
		keys := map[string]bool{}
		for _, k := range sig.heapKeys {
			keys[k] = true
		}
		used := NewUsage()
		env := &Env{w: w, pkg: sf.Pkg, vars: map[string]TV{}, used: used}
		env.heap = func(key string) *Term {
			if !keys[key] {
				keys[key] = true
				sig.heapKeys = append(sig.heapKeys, key)
			}
			return Sym(smtName("h!"+key), w.heapSort[key])
		}
		for i, p := range sf.Params {
			env.vars[p.Name] = TV{T: Sym(sig.name+"!"+p.Name, w.sortOf(sig.params[i])), Ty: sig.params[i]}
		}
		tv, err := env.Compile(sf.Body)
		if err != nil {
			return fmt.Errorf("%s:%d: spec %s: %v", sf.File, sf.Line, name, err)
		}
		tv = env.toSort(tv, rt)
		if tv.T == nil || tv.T.Sort != w.sortOf(rt) {
			return fmt.Errorf("%s:%d: spec %s: body has sort %v, declared %s", sf.File, sf.Line, name, tv.T, w.sortOf(rt))
		}
		sig.body = tv.T
		sig.deps = sortedKeys(used.specs)
		for id := range used.strs {
			_ = id
		}
		// heap keys of callees were added through env.heap during compile
		return nil
	}
	if err := compileOnce(); err != nil {
		delete(w.specSigs, name)
		return nil, err
	}
	if sf.Rec {
		n := len(sig.heapKeys)
		if err := compileOnce(); err != nil {
			return nil, err
		}
		if len(sig.heapKeys) != n {
			if err := compileOnce(); err != nil {
				return nil, err
			}
		}
	}
	sig.state = 2
	return sig, nil
}

// specParamSyms returns the formal parameter binders of a spec function.
func (w *World) specBinders(sig *specSig) []Binder {
	var bs []Binder
	for _, k := range sig.heapKeys {
		bs = append(bs, Binder{smtName("h!" + k), w.heapSort[k]})
	}
	for i, p := range sig.sf.Params {
		bs = append(bs, Binder{sig.name + "!" + p.Name, w.sortOf(sig.params[i])})
	}
	return bs
}

// specDecls emits the declarations for the used spec functions in dependency order.
func (w *World) specDecls(used map[string]bool, reveal map[string]bool) (decls []string, unfold map[string]*specSig, err error) {
	unfold = map[string]*specSig{}
	done := map[string]bool{}
	var visit func(name string) error
	visit = func(name string) error {
		if done[name] {
			return nil
		}
		done[name] = true
		sig, e := w.specSig(name)
		if e != nil {
			return e
		}
		for _, d := range sig.deps {
			if d != name {
				if e := visit(d); e != nil {
					return e
				}
			}
		}
		bs := w.specBinders(sig)
		rs := w.sortOf(sig.result)
		var ps []string
		var ss []string
		for _, b := range bs {
			ps = append(ps, fmt.Sprintf("(%s %s)", b.Name, b.Sort))
			if sig.sf.Valued && b.Sort == SStr {
				ss = append(ss, "SV")
			} else {
				ss = append(ss, string(b.Sort))
			}
		}
		if sig.sf.Valued && rs == SStr {
			rs = "SV"
		}
		if sig.sf.Valued && !sig.sf.Uninter {
			return fmt.Errorf("spec %s: valued functions must be uninterpreted", name)
		}
		switch {
		case sig.sf.Uninter:
			decls = append(decls, fmt.Sprintf("(declare-fun %s (%s) %s)", sig.name, strings.Join(ss, " "), rs))
			if rs == SStr && len(bs) > 0 {
				// whatever string it denotes is a well-formed string
				var as []*Term
				for _, b := range bs {
					as = append(as, Sym(b.Name, b.Sort))
				}
				app := App(sig.name, rs, as...)
				wf := And(Le(IntLit(0), App("s.len", SInt, app)), Le(IntLit(0), App("s.off", SInt, app)),
					Lt(App("+", SInt, App("s.off", SInt, app), App("s.len", SInt, app)), IntLit(281474976710656)))
				decls = append(decls, "(assert "+Forall(bs, wf, []*Term{app}).String()+")")
			}
		case sig.sf.Rec || (sig.sf.Opaque && true):
			decls = append(decls, fmt.Sprintf("(declare-fun %s (%s) %s)", sig.name, strings.Join(ss, " "), rs))
			if sig.sf.Rec || reveal[name] {
				if sig.sf.Trigger && len(bs) > 0 {
					var as []*Term
					for _, b := range bs {
						as = append(as, Sym(b.Name, b.Sort))
					}
					app := App(sig.name, rs, as...)
					ax := Forall(bs, Eq(app, sig.body), []*Term{app})
					decls = append(decls, "(assert "+ax.String()+")")
				} else {
					unfold[sig.name] = sig
				}
			}
		case (hasQuant(sig.body) || sig.sf.Trigger) && len(bs) > 0:
			// bodies with quantifiers become triggered definitional axioms so
			// that they are only unfolded for terms that actually occur
			decls = append(decls, fmt.Sprintf("(declare-fun %s (%s) %s)", sig.name, strings.Join(ss, " "), rs))
			var as []*Term
			for _, b := range bs {
				as = append(as, Sym(b.Name, b.Sort))
			}
			app := App(sig.name, rs, as...)
			ax := Forall(bs, Eq(app, sig.body), []*Term{app})
			decls = append(decls, "(assert "+ax.String()+")")
		default:
			decls = append(decls, fmt.Sprintf("(define-fun %s (%s) %s %s)", sig.name, strings.Join(ps, " "), rs, sig.body))
		}
		return nil
	}
	for _, n := range sortedKeys(used) {
		if e := visit(n); e != nil {
			return nil, nil, e
		}
	}
	return decls, unfold, nil
}

func hasQuant(t *Term) bool {
	found := false
	Walk(t, map[*Term]bool{}, func(x *Term) {
		if x.Op == "forall" || x.Op == "exists" {
			found = true
		}
	})
	return found
}

// renameBound gives every quantifier of an inlined body fresh binder names.
func renameBound(t *Term) *Term {
	if len(t.Vars) > 0 {
		m := map[string]*Term{}
		nv := make([]Binder, len(t.Vars))
		for i, v := range t.Vars {
			n := freshBinder("in")
			nv[i] = Binder{n, v.Sort}
			m[v.Name] = Sym(n, v.Sort)
		}
		body := renameBound(Subst(t.Args[0], m))
		var pats [][]*Term
		for _, p := range t.Pats {
			np := make([]*Term, len(p))
			for i, a := range p {
				np[i] = Subst(a, m)
			}
			pats = append(pats, np)
		}
		return &Term{Op: t.Op, Args: []*Term{body}, Sort: SBool, Vars: nv, Pats: pats}
	}
	if len(t.Args) == 0 {
		return t
	}
	changed := false
	args := make([]*Term, len(t.Args))
	for i, a := range t.Args {
		args[i] = renameBound(a)
		if args[i] != a {
			changed = true
		}
	}
	if !changed {
		return t
	}
	return rebuild(t, args, nil)
}

// expandBounded unrolls forall/exists over a single int binder whose range
// guard has literal bounds (at most 32 values).
func expandBounded(t *Term) *Term {
	if len(t.Args) == 0 && len(t.Vars) == 0 {
		return t
	}
	args := make([]*Term, len(t.Args))
	changed := false
	for i, a := range t.Args {
		args[i] = expandBounded(a)
		if args[i] != a {
			changed = true
		}
	}
	if len(t.Vars) == 1 && t.Vars[0].Sort == SInt {
		body := args[0]
		v := t.Vars[0].Name
		var guard []*Term
		var rest *Term
		switch {
		case t.Op == "forall" && body.Op == "=>":
			guard = conj(body.Args[0])
			rest = body.Args[1]
		case t.Op == "exists" && body.Op == "and":
			guard = body.Args
		case t.Op == "forall" && body.Op == "true":
			return True
		}
		lo, hi, okLo, okHi := int64(0), int64(0), false, false
		var others []*Term
		for _, g := range guard {
			if g.Op == "<=" && len(g.Args) == 2 && g.Args[1].Op == v && len(g.Args[1].Args) == 0 {
				if n, ok := g.Args[0].IntVal(); ok {
					lo, okLo = n, true
					continue
				}
			}
			if g.Op == "<" && len(g.Args) == 2 && g.Args[0].Op == v && len(g.Args[0].Args) == 0 {
				if n, ok := g.Args[1].IntVal(); ok {
					hi, okHi = n, true
					continue
				}
			}
			others = append(others, g)
		}
		if okLo && okHi && hi-lo <= 32 {
			var parts []*Term
			for k := lo; k < hi; k++ {
				m := map[string]*Term{v: IntLit(k)}
				if t.Op == "forall" {
					parts = append(parts, Subst(Implies(And(others...), rest), m))
				} else {
					parts = append(parts, Subst(And(others...), m))
				}
			}
			if t.Op == "forall" {
				return And(parts...)
			}
			return Or(parts...)
		}
	}
	if !changed {
		return t
	}
	if len(t.Vars) > 0 {
		return &Term{Op: t.Op, Args: args, Sort: t.Sort, Vars: t.Vars, Pats: t.Pats}
	}
	return rebuild(t, args, t.Pats)
}

func conj(t *Term) []*Term {
	if t.Op == "and" {
		return t.Args
	}
	return []*Term{t}
}
