package main

import (
	"flag"
	"fmt"
	"os"
	"strings"
)

func usage() {
	fmt.Fprintln(os.Stderr, `usage:
  govc check --prop Cxx [--tier quick|thorough] [--repo /repo]
  govc func <pkgpath::Func> [--dump] [--timeout N]    verify one function (debug)
  govc lemma <label>                                   verify one lemma (debug)
  govc list                                            list functions under contract`)
	os.Exit(2)
}

func main() {
	if len(os.Args) < 2 {
		usage()
	}
	cmd := os.Args[1]
	fs := flag.NewFlagSet(cmd, flag.ExitOnError)
	repo := fs.String("repo", "/repo", "repository working tree")
	prop := fs.String("prop", "", "property id")
	tier := fs.String("tier", "", "quick|thorough")
	dump := fs.Bool("dump", false, "dump queries")
	timeout := fs.Int("timeout", 10, "solver timeout (s)")
	only := fs.String("only", "", "only obligations whose name contains this")
	keep := fs.Bool("keep", false, "keep query files")
	var pos []string
	args := os.Args[2:]
	for len(args) > 0 && !strings.HasPrefix(args[0], "-") {
		pos = append(pos, args[0])
		args = args[1:]
	}
	fs.Parse(args)
	pos = append(pos, fs.Args()...)
	if *tier == "" {
		*tier = os.Getenv("VERIF_TIER")
		if *tier == "" {
			*tier = "quick"
		}
	}
	switch cmd {
	case "check":
		os.Exit(runCheck(*repo, *prop, *tier))
	case "replay":
		if len(pos) < 1 {
			usage()
		}
		os.Exit(runReplayCmd(*repo, pos[0]))
	case "func", "lemma":
		if len(pos) < 1 {
			usage()
		}
		w, err := LoadWorld(*repo)
		if err != nil {
			fmt.Fprintln(os.Stderr, "error:", err)
			os.Exit(2)
		}
		var vc *VC
		if cmd == "func" {
			key := pos[0]
			if !strings.Contains(key, "::") {
				// search by suffix
				for k := range w.cons.Funcs {
					if strings.HasSuffix(k, "::"+key) {
						key = k
					}
				}
			}
			if !strings.Contains(key, "::") {
				key = modPath + "/rules::" + key
			}
			if os.Getenv("VERIF_REFINE") != "" {
				vc, err = w.VerifyRefinement(key)
			} else {
				vc, err = w.VerifyFunc(key)
			}
		} else {
			for _, lm := range w.cons.Lemmas {
				if lm.Label == pos[0] {
					vc, err = w.VerifyLemma(lm)
				}
			}
			if vc == nil && err == nil {
				err = fmt.Errorf("no lemma %s", pos[0])
			}
		}
		if err != nil {
			fmt.Fprintln(os.Stderr, "error:", err)
			os.Exit(2)
		}
		for _, e := range vc.errs {
			fmt.Println("CONTRACT ERROR:", e)
		}
		for _, n := range vc.notes {
			fmt.Println("note:", n)
		}
		r := NewRunner(*timeout, false)
		r.keep = *keep || *dump
		defer r.Close()
		var items []vcObl
		for _, o := range vc.obls {
			if *only == "" || strings.Contains(o.Name, *only) {
				items = append(items, vcObl{vc, o})
			}
		}
		rs := r.SolveAll(items)
		bad := 0
		for _, x := range rs {
			exp := ""
			if x.Obl.ExpectSat {
				exp = " (cover)"
			}
			fmt.Printf("%-10s %-60s %s %.2fs %s%s\n", x.Status, x.Obl.Name, x.Solver, x.Time, x.Obl.Pos, exp)
			if x.Status != "discharged" {
				bad++
				if x.Status == "error" {
					fmt.Println("   ", x.Raw)
				}
				if *dump {
					fmt.Println(x.Query)
					fmt.Println(x.Model)
					for k, v := range x.Raw {
						fmt.Println("  ", k, ":", trunc(v, 600))
					}
				}
			}
		}
		if r.keep {
			fmt.Println("queries in", r.workdir)
		}
		fmt.Printf("%d obligations, %d not discharged\n", len(rs), bad)
	case "sweep":
		w, err := LoadWorld(*repo)
		if err != nil {
			fmt.Fprintln(os.Stderr, "error:", err)
			os.Exit(2)
		}
		runSweep(w, pos, *timeout)
	case "list":
		w, err := LoadWorld(*repo)
		if err != nil {
			fmt.Fprintln(os.Stderr, "error:", err)
			os.Exit(2)
		}
		for _, k := range w.cons.FuncOrd {
			fmt.Println(k)
		}
	default:
		usage()
	}
}
