package main

import (
	"fmt"
	"os"

	"golang.org/x/tools/go/packages"
	"golang.org/x/tools/go/ssa"
	"golang.org/x/tools/go/ssa/ssautil"
)

func main() {
	cfg := &packages.Config{Mode: packages.LoadAllSyntax, Dir: "/repo", BuildFlags: []string{"-tags=verif"}}
	pkgs, err := packages.Load(cfg, "./...")
	if err != nil {
		fmt.Println(err)
		os.Exit(2)
	}
	prog, spkgs := ssautil.AllPackages(pkgs, ssa.BuilderMode(0))
	prog.Build()
	for _, p := range spkgs {
		if p != nil {
			fmt.Println(p.Pkg.Path(), len(p.Members))
		}
	}
}
