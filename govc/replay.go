package main

// Counterexample replay: concretise the solver's model for the function's
// parameters (through capped get-value queries), build the inputs in an
// in-package test injected with `go test -overlay`, run the REAL function and
// compare what it does with what the model predicts.

import (
	"bytes"
	"encoding/json"
	"fmt"
	"go/types"
	"os"
	"os/exec"
	"path/filepath"
	"sort"
	"strconv"
	"strings"
	"time"

	"golang.org/x/tools/go/ssa"
)

type replayInfo struct {
	fn     *ssa.Function
	params []*Val
	result *Val
}

// node is a concretised value.
type node struct {
	Kind   string           `json:"kind"` // int uint bool string slice ptr iface nil opaque unsupported
	Int    string           `json:"int,omitempty"`
	Bool   bool             `json:"bool,omitempty"`
	Str    []int            `json:"str,omitempty"`
	Elems  []*node          `json:"elems,omitempty"`
	Ref    int64            `json:"ref,omitempty"`
	Fields map[string]*node `json:"fields,omitempty"`
	Dyn    string           `json:"dyn,omitempty"`
	Val    *node            `json:"val,omitempty"`
	Note   string           `json:"note,omitempty"`
}

const (
	capStr   = 32
	capSlice = 4
	capDepth = 4
)

type modelReader struct {
	w      *World
	solver string
	query  string
	dir    string
	cache  map[string]sexp
	nq     int
	dyn    map[string]types.Type
	cons   map[string]bool // size constraints for every slice / string visited
	over   bool
}

// overCap: the model uses a value too large to replay; the constraint asks
// the solver for a smaller counterexample.
type overCap struct{ constraint string }

func (e *overCap) Error() string { return "over the cap: " + e.constraint }

// ---- s-expressions

type sexp struct {
	atom string
	list []sexp
	isL  bool
}

func parseSexps(s string) []sexp {
	var out []sexp
	p := 0
	var parse func() (sexp, bool)
	skip := func() {
		for p < len(s) {
			c := s[p]
			if c == ' ' || c == '\n' || c == '\t' || c == '\r' {
				p++
			} else if c == ';' {
				for p < len(s) && s[p] != '\n' {
					p++
				}
			} else {
				break
			}
		}
	}
	parse = func() (sexp, bool) {
		skip()
		if p >= len(s) {
			return sexp{}, false
		}
		if s[p] == '(' {
			p++
			e := sexp{isL: true}
			for {
				skip()
				if p >= len(s) {
					return e, true
				}
				if s[p] == ')' {
					p++
					return e, true
				}
				c, ok := parse()
				if !ok {
					return e, true
				}
				e.list = append(e.list, c)
			}
		}
		if s[p] == ')' {
			p++
			return sexp{}, false
		}
		st := p
		if s[p] == '|' {
			p++
			for p < len(s) && s[p] != '|' {
				p++
			}
			p++
			return sexp{atom: s[st:p]}, true
		}
		if s[p] == '"' {
			p++
			for p < len(s) && s[p] != '"' {
				p++
			}
			p++
			return sexp{atom: s[st:p]}, true
		}
		for p < len(s) && !strings.ContainsRune(" \n\t\r()", rune(s[p])) {
			p++
		}
		return sexp{atom: s[st:p]}, true
	}
	for {
		e, ok := parse()
		if !ok {
			if p >= len(s) {
				break
			}
			continue
		}
		out = append(out, e)
	}
	return out
}

func (e sexp) String() string {
	if !e.isL {
		return e.atom
	}
	var ps []string
	for _, c := range e.list {
		ps = append(ps, c.String())
	}
	return "(" + strings.Join(ps, " ") + ")"
}

func (e sexp) intVal() (int64, bool) {
	if !e.isL {
		if strings.HasPrefix(e.atom, "#x") {
			v, err := strconv.ParseUint(e.atom[2:], 16, 64)
			return int64(v), err == nil
		}
		if strings.HasPrefix(e.atom, "#b") {
			v, err := strconv.ParseUint(e.atom[2:], 2, 64)
			return int64(v), err == nil
		}
		v, err := strconv.ParseInt(e.atom, 10, 64)
		return v, err == nil
	}
	if len(e.list) == 2 && e.list[0].atom == "-" {
		v, ok := e.list[1].intVal()
		return -v, ok
	}
	if len(e.list) == 3 && e.list[0].atom == "_" && strings.HasPrefix(e.list[1].atom, "bv") {
		v, err := strconv.ParseUint(e.list[1].atom[2:], 10, 64)
		return int64(v), err == nil
	}
	return 0, false
}

func (e sexp) uintStr() (string, bool) {
	if !e.isL {
		if strings.HasPrefix(e.atom, "#x") {
			v, err := strconv.ParseUint(e.atom[2:], 16, 64)
			return strconv.FormatUint(v, 10), err == nil
		}
		if strings.HasPrefix(e.atom, "#b") {
			v, err := strconv.ParseUint(e.atom[2:], 2, 64)
			return strconv.FormatUint(v, 10), err == nil
		}
	}
	if e.isL && len(e.list) == 3 && e.list[0].atom == "_" && strings.HasPrefix(e.list[1].atom, "bv") {
		return e.list[1].atom[2:], true
	}
	return "", false
}

// ---- model queries

func solverArgv(name, file string, sec int) []string {
	for _, s := range solvers {
		if s.name == name {
			return s.argv(file, sec)
		}
	}
	return solvers[0].argv(file, sec)
}

// eval asks the solver for the values of the given terms.
func (m *modelReader) eval(terms []string) (map[string]sexp, error) {
	out := map[string]sexp{}
	var need []string
	for _, t := range terms {
		if v, ok := m.cache[t]; ok {
			out[t] = v
		} else {
			need = append(need, t)
		}
	}
	if len(need) == 0 {
		return out, nil
	}
	m.nq++
	file := filepath.Join(m.dir, fmt.Sprintf("model%d.smt2", m.nq))
	var sb strings.Builder
	sb.WriteString(m.query)
	for i := 0; i < len(need); i += 1 {
		fmt.Fprintf(&sb, "(get-value (%s))\n", need[i])
	}
	os.WriteFile(file, []byte(sb.String()), 0o644)
	argv := solverArgv(m.solver, file, 30)
	cmd := exec.Command(argv[0], argv[1:]...)
	var ob bytes.Buffer
	cmd.Stdout = &ob
	cmd.Stderr = &ob
	cmd.Run()
	txt := ob.String()
	first := strings.TrimSpace(strings.SplitN(txt, "\n", 2)[0])
	if first != "sat" {
		return nil, fmt.Errorf("model re-query answered %q", first)
	}
	rest := txt[strings.Index(txt, "\n")+1:]
	exps := parseSexps(rest)
	k := 0
	for _, e := range exps {
		if !e.isL || len(e.list) != 1 || !e.list[0].isL || len(e.list[0].list) != 2 {
			continue
		}
		if k >= len(need) {
			break
		}
		v := e.list[0].list[1]
		m.cache[need[k]] = v
		out[need[k]] = v
		k++
	}
	if k != len(need) {
		return nil, fmt.Errorf("model re-query: got %d of %d values; output: %s", k, len(need), trunc(rest, 300))
	}
	return out, nil
}

func (m *modelReader) evalInt(term string) (int64, error) {
	vs, err := m.eval([]string{term})
	if err != nil {
		return 0, err
	}
	v, ok := vs[term].intVal()
	if !ok {
		return 0, fmt.Errorf("not an integer: %s = %s", term, vs[term])
	}
	return v, nil
}

func h0(key string) string { return heapSym(key, "0") }

// concretise builds the node for the value `term` of Go type t (entry heap).
func (m *modelReader) concretise(term string, t types.Type, depth int, objs map[string]*node) (*node, error) {
	w := m.w
	t = types.Unalias(t)
	if depth > capDepth {
		return &node{Kind: "unsupported", Note: "depth cap"}, nil
	}
	switch u := t.Underlying().(type) {
	case *types.Basic:
		switch {
		case u.Info()&types.IsBoolean != 0:
			vs, err := m.eval([]string{term})
			if err != nil {
				return nil, err
			}
			return &node{Kind: "bool", Bool: vs[term].atom == "true"}, nil
		case u.Info()&types.IsString != 0:
			n, err := m.evalInt("(s.len " + term + ")")
			if err != nil {
				return nil, err
			}
			m.cons[fmt.Sprintf("(<= (s.len %s) %d)", term, capStr/2)] = true
			if n > capStr {
				m.over = true
				return &node{Kind: "string", Str: []int{}}, nil
			}
			nd := &node{Kind: "string", Str: []int{}}
			var ts []string
			for i := int64(0); i < n; i++ {
				ts = append(ts, fmt.Sprintf("(bytes (s.arr %s) (+ (s.off %s) %d))", term, term, i))
			}
			vs, err := m.eval(ts)
			if err != nil {
				return nil, err
			}
			for _, tt := range ts {
				b, _ := vs[tt].intVal()
				nd.Str = append(nd.Str, int(b))
			}
			return nd, nil
		case u.Info()&types.IsInteger != 0:
			vs, err := m.eval([]string{term})
			if err != nil {
				return nil, err
			}
			v := vs[term]
			if w.sortOf(t) == SInt {
				n, ok := v.intVal()
				if !ok {
					return nil, fmt.Errorf("bad int %s", v)
				}
				return &node{Kind: "int", Int: strconv.FormatInt(n, 10)}, nil
			}
			us, ok := v.uintStr()
			if !ok {
				return nil, fmt.Errorf("bad bit-vector %s", v)
			}
			if isSigned(t) {
				wd := w.sortOf(t).BVWidth()
				uv, _ := strconv.ParseUint(us, 10, 64)
				sv := int64(uv)
				if wd < 64 && uv >= 1<<uint(wd-1) {
					sv = int64(uv) - int64(1)<<uint(wd)
				}
				return &node{Kind: "int", Int: strconv.FormatInt(sv, 10)}, nil
			}
			return &node{Kind: "uint", Int: us}, nil
		}
	case *types.Slice:
		arr, err := m.evalInt("(sl.arr " + term + ")")
		if err != nil {
			return nil, err
		}
		if arr == 0 {
			return &node{Kind: "nil"}, nil
		}
		n, err := m.evalInt("(sl.len " + term + ")")
		if err != nil {
			return nil, err
		}
		m.cons[fmt.Sprintf("(<= (sl.len %s) %d)", term, capSlice-1)] = true
		if n > capSlice {
			m.over = true
			return &node{Kind: "nil"}, nil
		}
		if w.sortOf(u.Elem()) == "" {
			return &node{Kind: "unsupported", Note: "slice of compound values"}, nil
		}
		key := w.elemHeap(u.Elem())
		nd := &node{Kind: "slice", Elems: []*node{}}
		if !strings.Contains(m.query, "(declare-const "+h0(key)+" ") {
			for i := int64(0); i < n; i++ {
				nd.Elems = append(nd.Elems, zeroNode(w, u.Elem()))
			}
			return nd, nil
		}
		for i := int64(0); i < n; i++ {
			et := fmt.Sprintf("(select (select %s (sl.arr %s)) (+ (sl.off %s) %d))", h0(key), term, term, i)
			en, err := m.concretise(et, u.Elem(), depth+1, objs)
			if err != nil {
				return nil, err
			}
			nd.Elems = append(nd.Elems, en)
		}
		return nd, nil
	case *types.Pointer:
		ref, err := m.evalInt(term)
		if err != nil {
			return nil, err
		}
		if ref == 0 {
			return &node{Kind: "nil"}, nil
		}
		st, ok := w.repoStruct(u.Elem())
		if !ok {
			return &node{Kind: "unsupported", Note: "pointer to " + u.Elem().String()}, nil
		}
		id := fmt.Sprintf("%s@%d", typeStr(u.Elem()), ref)
		if o, ok := objs[id]; ok {
			return &node{Kind: "ptr", Ref: ref, Dyn: typeStr(u.Elem()), Note: "shared:" + o.Note}, nil
		}
		nd := &node{Kind: "ptr", Ref: ref, Dyn: typeStr(u.Elem()), Fields: map[string]*node{}}
		objs[id] = nd
		if err := m.fields(term, structPrefix(u.Elem()), st, nd, depth, objs); err != nil {
			return nil, err
		}
		return nd, nil
	case *types.Interface:
		tag, err := m.evalInt("(i.tag " + term + ")")
		if err != nil {
			return nil, err
		}
		if tag == 0 {
			return &node{Kind: "nil"}, nil
		}
		for name, tg := range w.tags {
			if int64(tg) == tag {
				for _, cand := range w.tagTypes {
					if typeStr(cand) == name {
						if _, isPtr := types.Unalias(cand).Underlying().(*types.Pointer); isPtr {
							v, err := m.concretise("(i.ref "+term+")", cand, depth+1, objs)
							if err != nil {
								return nil, err
							}
							m.dyn[name] = cand
							return &node{Kind: "iface", Dyn: name, Val: v}, nil
						}
					}
				}
				return &node{Kind: "unsupported", Note: "interface holding " + name}, nil
			}
		}
		return &node{Kind: "unsupported", Note: "interface with unknown dynamic type"}, nil
	case *types.Map:
		ref, err := m.evalInt(term)
		if err != nil {
			return nil, err
		}
		if ref == 0 {
			return &node{Kind: "nil"}, nil
		}
		return &node{Kind: "unsupported", Note: "non-nil map"}, nil
	case *types.Struct:
		if _, ok := w.repoStruct(t); !ok {
			return &node{Kind: "opaque", Note: typeStr(t)}, nil
		}
	}
	return &node{Kind: "unsupported", Note: "type " + t.String()}, nil
}

func (m *modelReader) fields(ref, prefix string, st *types.Struct, nd *node, depth int, objs map[string]*node) error {
	w := m.w
	for i := 0; i < st.NumFields(); i++ {
		f := st.Field(i)
		if sub, ok := w.repoStruct(f.Type()); ok {
			sn := &node{Kind: "struct", Fields: map[string]*node{}}
			if err := m.fields(ref, prefix+"."+f.Name(), sub, sn, depth, objs); err != nil {
				return err
			}
			nd.Fields[f.Name()] = sn
			continue
		}
		key := w.fieldHeapP(prefix, st, i)
		if !strings.Contains(m.query, "(declare-const "+h0(key)+" ") {
			// the VC never reads this field: any value will do, take the zero value
			nd.Fields[f.Name()] = zeroNode(w, f.Type())
			continue
		}
		fn, err := m.concretise(fmt.Sprintf("(select %s %s)", h0(key), ref), f.Type(), depth+1, objs)
		if err != nil {
			return err
		}
		nd.Fields[f.Name()] = fn
	}
	return nil
}

func hasUnsupported(n *node) string {
	if n == nil {
		return ""
	}
	if n.Kind == "unsupported" {
		return n.Note
	}
	for _, e := range n.Elems {
		if s := hasUnsupported(e); s != "" {
			return s
		}
	}
	for _, k := range sortedNodeKeys(n.Fields) {
		if s := hasUnsupported(n.Fields[k]); s != "" {
			return k + ": " + s
		}
	}
	return hasUnsupported(n.Val)
}

func sortedNodeKeys(m map[string]*node) []string {
	ks := make([]string, 0, len(m))
	for k := range m {
		ks = append(ks, k)
	}
	sort.Strings(ks)
	return ks
}

// tryReplay returns whether the counterexample was confirmed on the real code.
func tryReplay(w *World, x *Result) (bool, map[string]any) {
	detail := map[string]any{}
	ri := x.vcReplay
	if ri == nil || ri.fn == nil {
		detail["status"] = "no replay: not a function obligation"
		return false, detail
	}
	if x.Query == "" || x.Solver == "" {
		detail["status"] = "no replay: no model"
		return false, detail
	}
	dir, _ := os.MkdirTemp("", "govc-replay-")
	defer os.RemoveAll(dir)
	m := &modelReader{w: w, solver: strings.TrimSuffix(x.Solver, " (cached)"), query: x.Query, dir: dir, cache: map[string]sexp{}, dyn: map[string]types.Type{}, cons: map[string]bool{}}
	fn := ri.fn
	var objs map[string]*node
	var args []*node
	baseQuery := strings.TrimSuffix(strings.TrimSpace(x.Query), "(check-sat)")
	var extra []string
	for attempt := 0; ; attempt++ {
		m.query = baseQuery + strings.Join(extra, "\n") + "\n(check-sat)\n"
		m.cache = map[string]sexp{}
		m.over = false
		objs = map[string]*node{}
		args = nil
		var oc *overCap
		for i, p := range fn.Params {
			if ri.params[i].T == nil {
				detail["status"] = "no replay: compound parameter " + p.Name()
				return false, detail
			}
			n, err := m.concretise(ri.params[i].T.String(), p.Type(), 0, objs)
			if err != nil {
				if e, ok := err.(*overCap); ok {
					oc = e
					break
				}
				detail["status"] = "no replay: " + err.Error()
				return false, detail
			}
			if s := hasUnsupported(n); s != "" {
				detail["status"] = "no replay: parameter " + p.Name() + " not concretisable (" + s + ")"
				return false, detail
			}
			args = append(args, n)
		}
		if oc == nil && !m.over {
			break
		}
		if attempt >= 6 {
			detail["status"] = "no replay: no small counterexample found"
			return false, detail
		}
		extra = nil
		for c := range m.cons {
			extra = append(extra, "(assert "+c+")")
		}
		sort.Strings(extra)
	}
	detail["size_constraints"] = extra
	detail["inputs"] = args
	inputIDs := map[string]bool{}
	for id := range objs {
		inputIDs[id] = true
	}
	// predicted result (scalars only)
	var predicted []*node
	if ri.result != nil {
		rs := []*Val{ri.result}
		if ri.result.Fs != nil && fn.Signature.Results().Len() > 1 {
			rs = ri.result.Fs
		}
		for k, r := range rs {
			if r.T == nil {
				predicted = append(predicted, &node{Kind: "unsupported"})
				continue
			}
			n, err := m.concretise(r.T.String(), fn.Signature.Results().At(k).Type(), capDepth, objs)
			if err != nil {
				n = &node{Kind: "unsupported", Note: err.Error()}
			}
			markFresh(n, inputIDs)
			predicted = append(predicted, n)
		}
	}
	detail["predicted_results"] = predicted
	out, err := runReplayTest(w, fn, args, dir, m.dyn)
	if err != nil {
		detail["status"] = "replay could not run: " + err.Error()
		return false, detail
	}
	detail["observed"] = out
	isSafety := x.Obl.Kind == "safety"
	if p, _ := out["panic"].(string); p != "" {
		detail["status"] = "confirmed: the real function panics on the model's input: " + p
		return true, detail
	}
	if isSafety {
		detail["status"] = "not confirmed: no panic on the model's input"
		return false, detail
	}
	// compare scalar results
	obs, _ := out["results"].([]any)
	if len(obs) != len(predicted) || len(predicted) == 0 {
		detail["status"] = "not confirmed: results not comparable"
		return false, detail
	}
	for k := range predicted {
		pj, _ := json.Marshal(scalarView(predicted[k]))
		oj, _ := json.Marshal(obs[k])
		if predicted[k].Kind == "unsupported" || predicted[k].Kind == "opaque" {
			detail["status"] = "not confirmed: predicted result not concretisable"
			return false, detail
		}
		if string(pj) != string(oj) {
			detail["status"] = fmt.Sprintf("not confirmed: real result %s differs from the model's %s (an abstracted library function behaves differently)", oj, pj)
			return false, detail
		}
	}
	if x.havoc {
		detail["status"] = "not confirmed: the real function returns the counterexample's result, but the counterexample depends on calls without a contract (havoc), so the coincidence proves nothing"
		return false, detail
	}
	detail["status"] = "confirmed: the real function returns exactly the result of the counterexample, for which the clause is false"
	return true, detail
}

// scalarView is the comparable summary of a node (mirrors the test's encoder).
func scalarView(n *node) any {
	switch n.Kind {
	case "int", "uint":
		return n.Int
	case "bool":
		return n.Bool
	case "string":
		b := make([]byte, len(n.Str))
		for i, c := range n.Str {
			b[i] = byte(c)
		}
		return "s:" + string(b)
	case "nil":
		return "nil"
	case "ptr":
		if n.Dyn == "fresh" {
			return "ptr:fresh"
		}
		return fmt.Sprintf("ptr:%s@%d", n.Dyn, n.Ref)
	case "slice":
		var es []any
		for _, e := range n.Elems {
			es = append(es, scalarView(e))
		}
		return es
	case "iface":
		return map[string]any{"dyn": n.Dyn, "val": scalarView(n.Val)}
	}
	return "?"
}

// ---------------------------------------------------------------- test generation

func markFresh(n *node, inputIDs map[string]bool) {
	if n == nil {
		return
	}
	if n.Kind == "ptr" && !inputIDs[fmt.Sprintf("%s@%d", n.Dyn, n.Ref)] {
		n.Dyn, n.Ref = "fresh", 0
	}
	for _, e := range n.Elems {
		markFresh(e, inputIDs)
	}
	markFresh(n.Val, inputIDs)
}

func runReplayTest(w *World, fn *ssa.Function, args []*node, dir string, dyn map[string]types.Type) (map[string]any, error) {
	pkg := fn.Pkg
	if pkg == nil {
		return nil, fmt.Errorf("function without package")
	}
	imports := map[string]string{}
	qual := func(p *types.Package) string {
		if p == pkg.Pkg {
			return ""
		}
		imports[p.Path()] = p.Name()
		return p.Name()
	}
	var typeExprs []string
	for _, p := range fn.Params {
		typeExprs = append(typeExprs, types.TypeString(p.Type(), qual))
	}
	argsJSON, _ := json.Marshal(args)
	var call strings.Builder
	recv := fn.Signature.Recv()
	start := 0
	if recv != nil {
		fmt.Fprintf(&call, "a0.%s(", fn.Name())
		start = 1
	} else {
		fmt.Fprintf(&call, "%s(", fn.Name())
	}
	for i := start; i < len(fn.Params); i++ {
		if i > start {
			call.WriteString(", ")
		}
		if fn.Signature.Variadic() && i == len(fn.Params)-1 {
			fmt.Fprintf(&call, "a%d...", i)
		} else {
			fmt.Fprintf(&call, "a%d", i)
		}
	}
	call.WriteString(")")
	nres := fn.Signature.Results().Len()
	var lhs []string
	for i := 0; i < nres; i++ {
		lhs = append(lhs, fmt.Sprintf("r%d", i))
	}
	var body strings.Builder
	for i, te := range typeExprs {
		fmt.Fprintf(&body, "\ta%d := zzBuild(reflect.TypeOf((*%s)(nil)).Elem(), zzArgs[%d]).Interface().(%s)\n", i, te, i, te)
	}
	// interface-typed parameters: Interface() of a nil interface value panics on the type assertion
	if nres > 0 {
		fmt.Fprintf(&body, "\t%s := %s\n", strings.Join(lhs, ", "), call.String())
		for _, l := range lhs {
			fmt.Fprintf(&body, "\tzzOut = append(zzOut, zzEnc(reflect.ValueOf(&%s).Elem()))\n", l)
		}
	} else {
		fmt.Fprintf(&body, "\t%s\n", call.String())
	}
	var reg strings.Builder
	for name, t := range dyn {
		fmt.Fprintf(&reg, "\tzzTypes[%q] = reflect.TypeOf((%s)(nil))\n", name, types.TypeString(t, qual))
	}
	var imp strings.Builder
	for path, name := range imports {
		fmt.Fprintf(&imp, "\t%s %q\n", name, path)
	}
	src := strings.NewReplacer("@PKG@", pkg.Pkg.Name(), "@IMPORTS@", imp.String(), "@ARGS@", strconv.Quote(string(argsJSON)), "@BODY@", body.String(), "@TYPES@", reg.String()).Replace(replayTemplate)
	testFile := filepath.Join(dir, "zz_verif_replay_test.go")
	if err := os.WriteFile(testFile, []byte(src), 0o644); err != nil {
		return nil, err
	}
	pdir := ""
	for path, p := range w.pkgs {
		if path == pkg.Pkg.Path() && len(p.GoFiles) > 0 {
			pdir = filepath.Dir(p.GoFiles[0])
		}
	}
	if pdir == "" {
		return nil, fmt.Errorf("package directory not found")
	}
	ov, _ := json.Marshal(map[string]any{"Replace": map[string]string{filepath.Join(pdir, "zz_verif_replay_test.go"): testFile}})
	ovFile := filepath.Join(dir, "overlay.json")
	os.WriteFile(ovFile, ov, 0o644)
	cmd := exec.Command("go", "test", "-overlay", ovFile, "-vet=off", "-count=1", "-timeout", "60s", "-v", "-run", "^TestZZVerifReplay$", ".")
	cmd.Dir = pdir
	cmd.Env = append(os.Environ(), "GOFLAGS=-mod=mod", "GOPROXY=off", "GOSUMDB=off", "GOTOOLCHAIN=local")
	var ob bytes.Buffer
	cmd.Stdout = &ob
	cmd.Stderr = &ob
	done := make(chan error, 1)
	go func() { done <- cmd.Run() }()
	select {
	case <-done:
	case <-time.After(120 * time.Second):
		cmd.Process.Kill()
		return nil, fmt.Errorf("replay test timed out")
	}
	txt := ob.String()
	i := strings.Index(txt, "ZZREPLAY:")
	if i < 0 {
		return nil, fmt.Errorf("replay test produced no result: %s", trunc(txt, 600))
	}
	line := txt[i+len("ZZREPLAY:"):]
	if j := strings.Index(line, "\n"); j >= 0 {
		line = line[:j]
	}
	var out map[string]any
	if err := json.Unmarshal([]byte(line), &out); err != nil {
		return nil, fmt.Errorf("replay output: %v", err)
	}
	return out, nil
}

const replayTemplate = `package @PKG@

import (
	"encoding/json"
	"fmt"
	"reflect"
	"strconv"
	"testing"
	"unsafe"
@IMPORTS@)

type zzNode struct {
	Kind   string             ` + "`json:\"kind\"`" + `
	Int    string             ` + "`json:\"int\"`" + `
	Bool   bool               ` + "`json:\"bool\"`" + `
	Str    []int              ` + "`json:\"str\"`" + `
	Elems  []*zzNode          ` + "`json:\"elems\"`" + `
	Ref    int64              ` + "`json:\"ref\"`" + `
	Fields map[string]*zzNode ` + "`json:\"fields\"`" + `
	Dyn    string             ` + "`json:\"dyn\"`" + `
	Val    *zzNode            ` + "`json:\"val\"`" + `
}

var zzObjs = map[string]reflect.Value{}
var zzIDs = map[uintptr]string{}
var zzOut []any

func zzSet(dst reflect.Value, v reflect.Value) {
	if !dst.CanSet() {
		dst = reflect.NewAt(dst.Type(), unsafe.Pointer(dst.UnsafeAddr())).Elem()
	}
	dst.Set(v)
}

func zzFill(sv reflect.Value, n *zzNode) {
	for name, fn := range n.Fields {
		f := sv.FieldByName(name)
		if !f.IsValid() {
			continue
		}
		if fn.Kind == "struct" {
			ff := f
			if !ff.CanSet() {
				ff = reflect.NewAt(f.Type(), unsafe.Pointer(f.UnsafeAddr())).Elem()
			}
			zzFill(ff, fn)
			continue
		}
		if fn.Kind == "opaque" {
			continue
		}
		zzSet(f, zzBuild(f.Type(), fn))
	}
}

func zzBuild(t reflect.Type, n *zzNode) reflect.Value {
	switch n.Kind {
	case "nil", "opaque":
		return reflect.Zero(t)
	case "bool":
		v := reflect.New(t).Elem()
		v.SetBool(n.Bool)
		return v
	case "int":
		v := reflect.New(t).Elem()
		i, _ := strconv.ParseInt(n.Int, 10, 64)
		v.SetInt(i)
		return v
	case "uint":
		v := reflect.New(t).Elem()
		u, _ := strconv.ParseUint(n.Int, 10, 64)
		v.SetUint(u)
		return v
	case "string":
		b := make([]byte, len(n.Str))
		for i, c := range n.Str {
			b[i] = byte(c)
		}
		v := reflect.New(t).Elem()
		v.SetString(string(b))
		return v
	case "slice":
		v := reflect.MakeSlice(t, len(n.Elems), len(n.Elems))
		for i, e := range n.Elems {
			v.Index(i).Set(zzBuild(t.Elem(), e))
		}
		return v
	case "ptr":
		id := n.Dyn + "@" + strconv.FormatInt(n.Ref, 10)
		if o, ok := zzObjs[id]; ok {
			return o
		}
		p := reflect.New(t.Elem())
		zzObjs[id] = p
		zzIDs[p.Pointer()] = id
		zzFill(p.Elem(), n)
		return p
	case "iface":
		// find the concrete type by name among the known ones
		ct, ok := zzTypes[n.Dyn]
		if !ok {
			panic("zz: unknown dynamic type " + n.Dyn)
		}
		v := reflect.New(t).Elem()
		v.Set(zzBuild(ct, n.Val))
		return v
	}
	panic("zz: cannot build " + n.Kind)
}

func zzEnc(v reflect.Value) any {
	switch v.Kind() {
	case reflect.Bool:
		return v.Bool()
	case reflect.Int, reflect.Int8, reflect.Int16, reflect.Int32, reflect.Int64:
		return strconv.FormatInt(v.Int(), 10)
	case reflect.Uint, reflect.Uint8, reflect.Uint16, reflect.Uint32, reflect.Uint64, reflect.Uintptr:
		return strconv.FormatUint(v.Uint(), 10)
	case reflect.String:
		return "s:" + v.String()
	case reflect.Ptr:
		if v.IsNil() {
			return "nil"
		}
		if id, ok := zzIDs[v.Pointer()]; ok {
			return "ptr:" + id
		}
		return "ptr:fresh"
	case reflect.Slice:
		if v.IsNil() {
			return "nil"
		}
		es := []any{}
		for i := 0; i < v.Len(); i++ {
			es = append(es, zzEnc(v.Index(i)))
		}
		return es
	case reflect.Interface:
		if v.IsNil() {
			return "nil"
		}
		return map[string]any{"dyn": v.Elem().Type().String(), "val": zzEnc(v.Elem())}
	}
	return "?"
}

var zzTypes = map[string]reflect.Type{}

func TestZZVerifReplay(t *testing.T) {
@TYPES@
	var zzArgs []*zzNode
	if err := json.Unmarshal([]byte(@ARGS@), &zzArgs); err != nil {
		t.Fatal(err)
	}
	res := map[string]any{}
	func() {
		defer func() {
			if r := recover(); r != nil {
				res["panic"] = fmt.Sprint(r)
			}
		}()
@BODY@
	}()
	res["results"] = zzOut
	b, _ := json.Marshal(res)
	fmt.Println("ZZREPLAY:" + string(b))
}
`

func zeroNode(w *World, t types.Type) *node {
	switch u := types.Unalias(t).Underlying().(type) {
	case *types.Basic:
		switch {
		case u.Info()&types.IsBoolean != 0:
			return &node{Kind: "bool"}
		case u.Info()&types.IsString != 0:
			return &node{Kind: "string", Str: []int{}}
		case u.Info()&types.IsUnsigned != 0:
			return &node{Kind: "uint", Int: "0"}
		case u.Info()&types.IsInteger != 0:
			return &node{Kind: "int", Int: "0"}
		}
	case *types.Struct:
		return &node{Kind: "opaque"}
	}
	return &node{Kind: "nil"}
}
