package main

// tryReplay: concretise the counterexample and run it against the real code.
func tryReplay(w *World, x *Result) (bool, map[string]any) {
	return false, map[string]any{"status": "not attempted"}
}
