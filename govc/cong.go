package main

// Prefix-congruence of fold-style recursive spec functions:
//   (forall k in [0,n) :: s1[k] == s2[k])  ==>  F(E1,…,s1,…,n) == F(E2,…,s2,…,n)
// The axiom is added to every VC that uses F; it is itself proved by
// induction on n (obligations cong/<F>/base and cong/<F>/step).

import (
	"fmt"
	"go/types"
	"strings"
)

type congInfo struct {
	c       *Congruence
	sig     *specSig
	elemKey string
	si, ni  int // parameter positions
}

func (w *World) congInfo(c *Congruence) (*congInfo, error) {
	sig, err := w.specSig(c.Fn)
	if err != nil {
		return nil, err
	}
	ci := &congInfo{c: c, sig: sig, si: -1, ni: -1}
	for i, p := range sig.sf.Params {
		if p.Name == c.SliceParam {
			ci.si = i
		}
		if p.Name == c.LenParam {
			ci.ni = i
		}
	}
	if ci.si < 0 || ci.ni < 0 {
		return nil, fmt.Errorf("%s:%d: congruence %s: no such parameters", c.File, c.Line, c.Fn)
	}
	sl, ok := types.Unalias(sig.params[ci.si]).Underlying().(*types.Slice)
	if !ok {
		return nil, fmt.Errorf("%s:%d: congruence %s: %s is not a slice", c.File, c.Line, c.Fn, c.SliceParam)
	}
	ci.elemKey = w.elemHeap(sl.Elem())
	for i, p := range sig.params {
		if i == ci.si {
			continue
		}
		if s2, ok := types.Unalias(p).Underlying().(*types.Slice); ok && w.elemHeap(s2.Elem()) == ci.elemKey {
			return nil, fmt.Errorf("%s:%d: congruence %s: another slice parameter shares the element heap", c.File, c.Line, c.Fn)
		}
	}
	return ci, nil
}

// congTerms builds (hypothesis, lhs, rhs, binders) of the congruence statement.
func (w *World) congTerms(ci *congInfo, tag string) (hyp, lhs, rhs *Term, bs []Binder) {
	sig := ci.sig
	rs := w.sortOf(sig.result)
	var a1, a2 []*Term
	var e1, e2 *Term
	for _, k := range sig.heapKeys {
		s := w.heapSort[k]
		if k == ci.elemKey {
			e1 = Sym(tag+"E1", s)
			e2 = Sym(tag+"E2", s)
			bs = append(bs, Binder{e1.Op, s}, Binder{e2.Op, s})
			a1 = append(a1, e1)
			a2 = append(a2, e2)
			continue
		}
		h := Sym(tag+smtName("h!"+k), s)
		bs = append(bs, Binder{h.Op, s})
		a1 = append(a1, h)
		a2 = append(a2, h)
	}
	var s1, s2, n *Term
	for i, p := range sig.sf.Params {
		s := w.sortOf(sig.params[i])
		if i == ci.si {
			s1 = Sym(tag+"s1", s)
			s2 = Sym(tag+"s2", s)
			bs = append(bs, Binder{s1.Op, s}, Binder{s2.Op, s})
			a1 = append(a1, s1)
			a2 = append(a2, s2)
			continue
		}
		v := Sym(tag+"p!"+smtName(p.Name), s)
		bs = append(bs, Binder{v.Op, s})
		a1 = append(a1, v)
		a2 = append(a2, v)
		if i == ci.ni {
			n = v
		}
	}
	lhs = App(sig.name, rs, a1...)
	rhs = App(sig.name, rs, a2...)
	if e1 == nil {
		// the function does not read the element heap: nothing to state
		return True, lhs, rhs, bs
	}
	k := Sym(freshBinder("k"), SInt)
	el := func(e, s *Term) *Term { return Select(Select(e, SlArr(s)), Idx(SlOff(s), k)) }
	hyp = Forall([]Binder{{k.Op, SInt}}, Implies(And(Le(IntLit(0), k), Lt(k, n)), Eq(el(e1, s1), el(e2, s2))))
	return hyp, lhs, rhs, bs
}

// prefEq declares (once per VC) the prefix-equality predicate of an element heap.
func (vc *VC) prefEq(key string) string {
	name := smtName("prefEq!" + key)
	if _, ok := vc.decl[name]; ok {
		return name
	}
	hs := vc.w.heapSort[key]
	e1, e2 := Sym("q!pe!E1", hs), Sym("q!pe!E2", hs)
	s1, s2 := Sym("q!pe!s1", SSlice), Sym("q!pe!s2", SSlice)
	n, k := Sym("q!pe!n", SInt), Sym("q!pe!k", SInt)
	app := App(name, SBool, e1, s1, e2, s2, n)
	body := Forall([]Binder{{k.Op, SInt}}, Implies(And(Le(IntLit(0), k), Lt(k, n)),
		Eq(Select(Select(e1, SlArr(s1)), Idx(SlOff(s1), k)), Select(Select(e2, SlArr(s2)), Idx(SlOff(s2), k)))))
	ax := Forall([]Binder{{e1.Op, hs}, {s1.Op, SSlice}, {e2.Op, hs}, {s2.Op, SSlice}, {n.Op, SInt}}, Eq(app, body), []*Term{app})
	m, nn := Sym("q!pe!m", SInt), n
	mono := Forall([]Binder{{e1.Op, hs}, {s1.Op, SSlice}, {e2.Op, hs}, {s2.Op, SSlice}, {nn.Op, SInt}, {m.Op, SInt}},
		Implies(And(app, Le(m, nn)), App(name, SBool, e1, s1, e2, s2, m)), []*Term{app, App(name, SBool, e1, s1, e2, s2, m)})
	_ = mono
	vc.decl[name] = fmt.Sprintf("(declare-fun %s (%s Slice %s Slice Int) Bool)\n(assert %s)", name, hs, hs, ax)
	vc.declO = append(vc.declO, name)
	return name
}

// congAxioms: for every fold function with a proved congruence that the VC
// uses, two consequences of the congruence statement:
//   C1  E1[arr s] == E2[arr s]           ==> F(E1,…,s,…,n) == F(E2,…,s,…,n)
//   C2  prefEq(E1,s1,E2,s2,n)            ==> F(E1,…,s1,…,n) == F(E2,…,s2,…,n)
func (w *World) congAxioms(vc *VC) []string {
	var out []string
	for _, c := range w.cons.Congs {
		if !w.specUsedTransitively(vc.used.specs, c.Fn) || vc.noCong[c.Fn] {
			continue
		}
		ci, err := w.congInfo(c)
		if err != nil {
			continue
		}
		binderCounter++
		tag := fmt.Sprintf("q!cg%d!", binderCounter)
		_, lhs, rhs, bs := w.congTerms(ci, tag)
		hs := w.heapSort[ci.elemKey]
		e1, e2 := Sym(tag+"E1", hs), Sym(tag+"E2", hs)
		s1, s2 := Sym(tag+"s1", SSlice), Sym(tag+"s2", SSlice)
		n := Sym(tag+"p!"+smtName(c.LenParam), SInt)
		if len(lhs.Args) == len(rhs.Args) && !termEq(lhs, rhs) {
			pe := vc.prefEq(ci.elemKey)
			c2 := Forall(bs, Implies(App(pe, SBool, e1, s1, e2, s2, n), Eq(lhs, rhs)), []*Term{App(pe, SBool, e1, s1, e2, s2, n), lhs})
			out = append(out, "(assert "+c2.String()+")")
			// C1: same slice
			sub := map[string]*Term{s2.Op: s1}
			var bs1 []Binder
			for _, b := range bs {
				if b.Name != s2.Op {
					bs1 = append(bs1, b)
				}
			}
			l1, r1 := lhs, Subst(rhs, sub)
			hsN := vc.heapSucc(ci.elemKey)
			c1 := Forall(bs1, Implies(Eq(Select(e1, SlArr(s1)), Select(e2, SlArr(s1))), Eq(l1, r1)), []*Term{l1, r1}, []*Term{l1, App(hsN, SBool, e1, e2)})
			out = append(out, "(assert "+c1.String()+")")
		}
	}
	return out
}

func (w *World) specUsedTransitively(used map[string]bool, name string) bool {
	seen := map[string]bool{}
	var visit func(n string) bool
	visit = func(n string) bool {
		if n == name {
			return true
		}
		if seen[n] {
			return false
		}
		seen[n] = true
		if sig, ok := w.specSigs[n]; ok {
			for _, d := range sig.deps {
				if visit(d) {
					return true
				}
			}
		}
		return false
	}
	for u := range used {
		if visit(u) {
			return true
		}
	}
	return false
}

// VerifyCongruence proves the congruence by induction on the length parameter.
func (w *World) VerifyCongruence(c *Congruence) (*VC, error) {
	w.regAllocKeys()
	ci, err := w.congInfo(c)
	if err != nil {
		return nil, err
	}
	vc := NewVC(w, "cong:"+c.Fn)
	vc.used.specs[c.Fn] = true
	vc.noCong = map[string]bool{c.Fn: true}
	vc.reveal[c.Fn] = true
	hyp, lhs, rhs, bs := w.congTerms(ci, "cg!")
	var n *Term
	for _, b := range bs {
		vc.declare(b.Name, b.Sort)
		if b.Name == "cg!p!"+smtName(c.LenParam) {
			n = Sym(b.Name, b.Sort)
		}
	}
	// induction hypothesis: the statement for n-1, universally in everything else
	binderCounter++
	tag := fmt.Sprintf("q!ih%d!", binderCounter)
	ihHyp, ihL, ihR, ihBs := w.congTerms(ci, tag)
	var qbs []Binder
	sub := map[string]*Term{}
	for _, b := range ihBs {
		if b.Name == tag+"p!"+smtName(c.LenParam) {
			sub[b.Name] = Sub(n, IntLit(1))
			continue
		}
		qbs = append(qbs, b)
	}
	ih := Forall(qbs, Subst(Implies(ihHyp, Eq(ihL, ihR)), sub), []*Term{Subst(ihL, sub), Subst(ihR, sub)})
	vc.oblige("cong", "cong/"+c.Fn+"/base", c.Props, And(hyp, Le(n, IntLit(0))), Eq(lhs, rhs), "")
	o := vc.oblige("cong", "cong/"+c.Fn+"/step", c.Props, And(hyp, Gt(n, IntLit(0))), Eq(lhs, rhs), "")
	if o != nil {
		o.Extra = []*Term{ih}
	}
	return vc, nil
}

// heapSucc declares the marker relation "heap E1 was derived from heap E2"
// of an element heap; it only serves as a trigger for the congruence C1.
func (vc *VC) heapSucc(key string) string {
	name := smtName("heapsucc!" + key)
	if _, ok := vc.decl[name]; !ok {
		hs := vc.w.heapSort[key]
		vc.decl[name] = fmt.Sprintf("(declare-fun %s (%s %s) Bool)", name, hs, hs)
		vc.declO = append(vc.declO, name)
	}
	return name
}

// noteSucc records that heap term e1 of the given key derives from e2.
func (vc *VC) noteSucc(key string, e1, e2 *Term) {
	if !strings.HasPrefix(key, "E:") || e1 == e2 {
		return
	}
	vc.assume(True, App(vc.heapSucc(key), SBool, e1, e2))
}
