package main

// Contract language: lexer, expression sparser, contract-file sparser.

import (
	"fmt"
	"strings"
	"unicode"
)

// ---------------------------------------------------------------- AST

type Expr interface{ exprNode() }

type (
	EIdent struct{ Name string }
	ELit   struct {
		Kind string // int, string, char, bool, nil
		Val  string
	}
	EBin   struct{ Op string; L, R Expr }
	EUn    struct{ Op string; X Expr }
	ECond  struct{ C, A, B Expr }
	ECall  struct{ Fn string; Args []Expr }
	ESel   struct{ X Expr; Field string }
	EIndex struct{ X, I Expr }
	ESlice struct{ X, Lo, Hi Expr }
	EQuant struct {
		Forall bool
		Vars   []QVar
		Body   Expr
	}
	EConv struct{ Type string; X Expr }
)

type QVar struct {
	Name   string
	Type   string // Go type text; "" with range => int
	Lo, Hi Expr   // optional range [Lo,Hi)
}

func (EIdent) exprNode() {}
func (ELit) exprNode()   {}
func (EBin) exprNode()   {}
func (EUn) exprNode()    {}
func (ECond) exprNode()  {}
func (ECall) exprNode()  {}
func (ESel) exprNode()   {}
func (EIndex) exprNode() {}
func (ESlice) exprNode() {}
func (EQuant) exprNode() {}
func (EConv) exprNode()  {}

// ---------------------------------------------------------------- lexer

type tokn struct {
	kind string // ident, int, string, char, op, eof
	val  string
	pos  int
}

type lexer struct {
	src  string
	toks []tokn
	p    int
}

var ops3 = []string{"<==>", "==>", "===", "!==", "&^", "<<", ">>", "&&", "||", "==", "!=", "<=", ">=", "::", ":="}

func lex(src string) ([]tokn, error) {
	var toks []tokn
	i := 0
	for i < len(src) {
		c := src[i]
		switch {
		case c == ' ' || c == '\t' || c == '\n' || c == '\r':
			i++
		case unicode.IsLetter(rune(c)) || c == '_':
			j := i
			for j < len(src) && (unicode.IsLetter(rune(src[j])) || unicode.IsDigit(rune(src[j])) || src[j] == '_') {
				j++
			}
			toks = append(toks, tokn{"ident", src[i:j], i})
			i = j
		case c >= '0' && c <= '9':
			j := i
			for j < len(src) && (unicode.IsLetter(rune(src[j])) || unicode.IsDigit(rune(src[j]))) {
				j++
			}
			toks = append(toks, tokn{"int", src[i:j], i})
			i = j
		case c == '"':
			j := i + 1
			for j < len(src) && src[j] != '"' {
				if src[j] == '\\' {
					j++
				}
				j++
			}
			if j >= len(src) {
				return nil, fmt.Errorf("unterminated string at %d in %q", i, src)
			}
			toks = append(toks, tokn{"string", src[i : j+1], i})
			i = j + 1
		case c == '`':
			j := i + 1
			for j < len(src) && src[j] != '`' {
				j++
			}
			if j >= len(src) {
				return nil, fmt.Errorf("unterminated raw string at %d", i)
			}
			toks = append(toks, tokn{"string", src[i : j+1], i})
			i = j + 1
		case c == '\'':
			j := i + 1
			for j < len(src) && src[j] != '\'' {
				if src[j] == '\\' {
					j++
				}
				j++
			}
			if j >= len(src) {
				return nil, fmt.Errorf("unterminated char at %d", i)
			}
			toks = append(toks, tokn{"char", src[i : j+1], i})
			i = j + 1
		default:
			matched := false
			for _, op := range ops3 {
				if strings.HasPrefix(src[i:], op) {
					toks = append(toks, tokn{"op", op, i})
					i += len(op)
					matched = true
					break
				}
			}
			if !matched {
				toks = append(toks, tokn{"op", string(c), i})
				i++
			}
		}
	}
	toks = append(toks, tokn{"eof", "", len(src)})
	return toks, nil
}

// ---------------------------------------------------------------- sparser

type sparser struct {
	src  string
	toks []tokn
	p    int
}

func parseExpr(src string) (e Expr, err error) {
	toks, err := lex(src)
	if err != nil {
		return nil, err
	}
	ps := &sparser{src: src, toks: toks}
	defer func() {
		if r := recover(); r != nil {
			if pe, ok := r.(parseErr); ok {
				err = fmt.Errorf("%s (in %q)", string(pe), src)
				return
			}
			panic(r)
		}
	}()
	e = ps.expr()
	if ps.peek().kind != "eof" {
		ps.fail("unexpected %q", ps.peek().val)
	}
	return e, nil
}

type parseErr string

func (ps *sparser) fail(f string, a ...any) {
	panic(parseErr(fmt.Sprintf("parse error at %d: ", ps.peek().pos) + fmt.Sprintf(f, a...)))
}
func (ps *sparser) peek() tokn { return ps.toks[ps.p] }
func (ps *sparser) next() tokn { t := ps.toks[ps.p]; ps.p++; return t }
func (ps *sparser) isOp(v string) bool {
	t := ps.peek()
	return t.kind == "op" && t.val == v
}
func (ps *sparser) isIdent(v string) bool {
	t := ps.peek()
	return t.kind == "ident" && t.val == v
}
func (ps *sparser) expectOp(v string) {
	if !ps.isOp(v) {
		ps.fail("expected %q, got %q", v, ps.peek().val)
	}
	ps.p++
}

func (ps *sparser) expr() Expr {
	if ps.isIdent("forall") || ps.isIdent("exists") {
		return ps.quant()
	}
	return ps.iff()
}

func (ps *sparser) quant() Expr {
	fa := ps.next().val == "forall"
	var vars []QVar
	for {
		name := ps.next()
		if name.kind != "ident" {
			ps.fail("expected binder name")
		}
		qv := QVar{Name: name.val}
		if ps.isIdent("in") {
			ps.next()
			ps.expectOp("[")
			qv.Lo = ps.expr()
			ps.expectOp(",")
			qv.Hi = ps.expr()
			ps.expectOp(")")
		} else {
			// type text up to ',' or '::'
			start := ps.peek().pos
			depth := 0
			for {
				t := ps.peek()
				if t.kind == "eof" {
					ps.fail("unterminated binder type")
				}
				if depth == 0 && t.kind == "op" && (t.val == "," || t.val == "::") {
					break
				}
				if t.kind == "op" && (t.val == "[" || t.val == "(") {
					depth++
				}
				if t.kind == "op" && (t.val == "]" || t.val == ")") {
					depth--
				}
				ps.next()
			}
			qv.Type = strings.TrimSpace(ps.src[start:ps.peek().pos])
		}
		vars = append(vars, qv)
		if ps.isOp(",") {
			ps.next()
			continue
		}
		break
	}
	ps.expectOp("::")
	body := ps.expr()
	return EQuant{Forall: fa, Vars: vars, Body: body}
}

func (ps *sparser) iff() Expr {
	l := ps.cond()
	for ps.isOp("<==>") {
		ps.next()
		r := ps.cond()
		l = EBin{"<==>", l, r}
	}
	return l
}

func (ps *sparser) cond() Expr {
	c := ps.impl()
	if ps.isOp("?") {
		ps.next()
		a := ps.expr()
		ps.expectOp(":")
		b := ps.expr()
		return ECond{c, a, b}
	}
	return c
}

func (ps *sparser) impl() Expr {
	l := ps.or()
	if ps.isOp("==>") {
		ps.next()
		var r Expr
		if ps.isIdent("forall") || ps.isIdent("exists") {
			r = ps.quant()
		} else {
			r = ps.impl()
		}
		return EBin{"==>", l, r}
	}
	return l
}

func (ps *sparser) or() Expr {
	l := ps.and()
	for ps.isOp("||") {
		ps.next()
		l = EBin{"||", l, ps.and()}
	}
	return l
}

func (ps *sparser) and() Expr {
	l := ps.cmp()
	for ps.isOp("&&") {
		ps.next()
		var r Expr
		if ps.isIdent("forall") || ps.isIdent("exists") {
			r = ps.quant()
		} else {
			r = ps.cmp()
		}
		l = EBin{"&&", l, r}
	}
	return l
}

func (ps *sparser) cmp() Expr {
	l := ps.addl()
	for {
		t := ps.peek()
		if t.kind == "op" {
			switch t.val {
			case "==", "!=", "<", "<=", ">", ">=", "===", "!==":
				ps.next()
				l = EBin{t.val, l, ps.addl()}
				continue
			}
		}
		return l
	}
}

func (ps *sparser) addl() Expr {
	l := ps.mull()
	for {
		t := ps.peek()
		if t.kind == "op" && (t.val == "+" || t.val == "-" || t.val == "|" || t.val == "^") {
			ps.next()
			l = EBin{t.val, l, ps.mull()}
			continue
		}
		return l
	}
}

func (ps *sparser) mull() Expr {
	l := ps.unary()
	for {
		t := ps.peek()
		if t.kind == "op" && (t.val == "*" || t.val == "/" || t.val == "%" || t.val == "<<" || t.val == ">>" || t.val == "&" || t.val == "&^") {
			ps.next()
			l = EBin{t.val, l, ps.unary()}
			continue
		}
		return l
	}
}

func (ps *sparser) unary() Expr {
	t := ps.peek()
	if t.kind == "op" && (t.val == "!" || t.val == "-" || t.val == "^" || t.val == "*") {
		ps.next()
		return EUn{t.val, ps.unary()}
	}
	return ps.postfix()
}

var convTypes = map[string]bool{"int": true, "int8": true, "int16": true, "int32": true, "int64": true,
	"uint": true, "uint8": true, "uint16": true, "uint32": true, "uint64": true, "byte": true, "rune": true}

func (ps *sparser) postfix() Expr {
	e := ps.primary()
	for {
		switch {
		case ps.isOp("."):
			ps.next()
			t := ps.next()
			if t.kind != "ident" && t.kind != "int" {
				ps.fail("expected field name")
			}
			e = ESel{e, t.val}
		case ps.isOp("["):
			ps.next()
			var lo, hi Expr
			if ps.isOp(":") {
				ps.next()
				if !ps.isOp("]") {
					hi = ps.expr()
				}
				ps.expectOp("]")
				e = ESlice{e, nil, hi}
				continue
			}
			lo = ps.expr()
			if ps.isOp(":") {
				ps.next()
				if !ps.isOp("]") {
					hi = ps.expr()
				}
				ps.expectOp("]")
				e = ESlice{e, lo, hi}
				continue
			}
			ps.expectOp("]")
			e = EIndex{e, lo}
		case ps.isOp("("):
			id, ok := e.(EIdent)
			if !ok {
				// pkg.Func(...) style call
				if s, ok2 := e.(ESel); ok2 {
					if x, ok3 := s.X.(EIdent); ok3 {
						id = EIdent{x.Name + "." + s.Field}
						ok = true
					}
				}
				if !ok {
					ps.fail("call of non-identifier")
				}
			}
			ps.next()
			var args []Expr
			for !ps.isOp(")") {
				args = append(args, ps.expr())
				if ps.isOp(",") {
					ps.next()
				}
			}
			ps.expectOp(")")
			if convTypes[id.Name] && len(args) == 1 {
				e = EConv{id.Name, args[0]}
			} else {
				e = ECall{id.Name, args}
			}
		default:
			return e
		}
	}
}

func (ps *sparser) primary() Expr {
	t := ps.next()
	switch t.kind {
	case "ident":
		switch t.val {
		case "true", "false":
			return ELit{"bool", t.val}
		case "nil":
			return ELit{"nil", "nil"}
		}
		return EIdent{t.val}
	case "int":
		return ELit{"int", t.val}
	case "string":
		return ELit{"string", t.val}
	case "char":
		return ELit{"char", t.val}
	case "op":
		if t.val == "(" {
			e := ps.expr()
			ps.expectOp(")")
			return e
		}
	}
	ps.p--
	ps.fail("unexpected tokn %q", t.val)
	return nil
}

// ---------------------------------------------------------------- contract files

type Clause struct {
	Kind  string // requires, ensures, invariant, decreases, assert
	Label string // first label, e.g. "C07:eq-spec"
	Props []string
	Src   string
	E     Expr
	Loop  int
	Line  int
	File  string
	Assumed bool // ensures!: used by callers, not proved for the body (unchecked assumption)
}

type SpecFunc struct {
	Name    string
	Params  []Param
	Result  string // Go type text
	Rec     bool
	Opaque  bool
	Uninter bool // no body: uninterpreted
	BodySrc string
	Body    Expr
	Pkg     string // package path of declaring contract file
	Line    int
	File    string
	Reads   []string // heap keys an uninterpreted function depends on
	Trigger bool // emit quantified definition with trigger instead of fuel unfolding
	Valued  bool // uninterpreted function of the abstract VALUES of its string arguments (congruent w.r.t. string equality)
	Inline  bool // expanded at every call site (bounded quantifiers with literal ranges are unrolled)
}

type Param struct{ Name, Type string }

type FuncContract struct {
	Key      string // RelString within package, e.g. (*NetworkRule).IsHigherPriority
	Pkg      string
	Props    []string
	Requires []*Clause
	Assumes  []*Clause
	Ensures  []*Clause
	Assigns  []string // raw location specs; nil => unspecified (anything)
	HasAssigns bool
	Invs     []*Clause
	Decs     []*Clause
	Inline   bool
	Trusted  bool
	Pure     bool
	Uses     []string
	Functional bool
	NoSafety bool
	Extern   bool
	ExtParams  []Param
	ExtResults []Param
	Line     int
	File     string
	LoopHavoc map[int][]string
	After     map[int][]string // loop N then-assigns: the frame of the code that runs after loop N has finished
	Unroll   map[int]int
	Opts     map[string]string
}

type Lemma struct {
	Label   string
	Props   []string
	Src     string
	E       Expr
	Induct  string
	Pkg     string
	Line    int
	File    string
	Reveal  []string
	Hints   []string
	Uses    []string
	Axiom   bool // assumed, not proved (listed as an unchecked assumption)
}

// DataInv: an invariant of every non-nil *T that reaches a function as a
// parameter (assumed at entry, required at calls of repo functions).
type DataInv struct {
	Type string // Go type text of the pointee, e.g. ShortcutsTable
	Var  string
	Src  string
	E    Expr
	Pkg  string
	Line int
	File string
}

type GlobalInv struct {
	Label  string
	Props  []string
	Global string // the package-level variable the invariant is about ("" for the unchecked legacy form)
	Src  string
	E    Expr
	Pkg  string
	Line int
	File string
}

type Contracts struct {
	Specs   map[string]*SpecFunc
	SpecOrd []string
	Funcs   map[string]*FuncContract // key: pkgpath + "::" + RelString
	FuncOrd []string
	Lemmas  []*Lemma
	GInvs   []*GlobalInv
	Guards  []*Guard
	DInvs   []*DataInv
	Assumed []string // human-readable list of assumed/trusted items
	Congs   []*Congruence
}

func NewContracts() *Contracts {
	return &Contracts{Specs: map[string]*SpecFunc{}, Funcs: map[string]*FuncContract{}}
}

type Congruence struct {
	Fn, SliceParam, LenParam string
	Props                    []string
	Line                     int
	File                     string
}

var clauseKeywords = []string{"axiom", "assume", "congruence", "spec", "func", "extern", "requires", "ensures!", "ensures", "assigns", "loop", "lemma",
	"use", "props", "inline", "trusted", "pure", "functional", "nosafety", "globalinv", "datainv", "reveal", "hint", "opt", "guardedby", "threadlocal"}

func startsClause(s string) (string, bool) {
	for _, k := range clauseKeywords {
		if s == k || strings.HasPrefix(s, k+" ") || strings.HasPrefix(s, k+"\t") {
			return k, true
		}
	}
	return "", false
}

// ParseContractText parses the //@ lines of one file.
func (c *Contracts) ParseContractText(text, file, pkgPath string) error {
	type rawClause struct {
		text string
		line int
	}
	var raws []rawClause
	for i, ln := range strings.Split(text, "\n") {
		t := strings.TrimSpace(ln)
		var body string
		switch {
		case strings.HasPrefix(t, "//@"):
			body = t[3:]
		case strings.HasPrefix(t, "// @"):
			body = t[4:]
		default:
			continue
		}
		// strip trailing comment "  // ..."
		if k := strings.Index(body, " // "); k >= 0 && !strings.Contains(body[:k], "\"//") {
			body = body[:k]
		}
		b := strings.TrimSpace(body)
		if b == "" {
			continue
		}
		if _, ok := startsClause(b); ok || len(raws) == 0 {
			raws = append(raws, rawClause{b, i + 1})
		} else {
			raws[len(raws)-1].text += " " + b
		}
	}
	var cur *FuncContract
	var curLemma *Lemma
	for _, rc := range raws {
		kw, _ := startsClause(rc.text)
		rest := strings.TrimSpace(strings.TrimPrefix(rc.text, kw))
		errf := func(f string, a ...any) error {
			return fmt.Errorf("%s:%d: %s", file, rc.line, fmt.Sprintf(f, a...))
		}
		switch kw {
		case "spec":
			sf, err := parseSpecDecl(rest)
			if err != nil {
				return errf("%v", err)
			}
			sf.Pkg, sf.Line, sf.File = pkgPath, rc.line, file
			if _, dup := c.Specs[sf.Name]; dup {
				return errf("duplicate spec %s", sf.Name)
			}
			c.Specs[sf.Name] = sf
			c.SpecOrd = append(c.SpecOrd, sf.Name)
			cur, curLemma = nil, nil
		case "func", "extern":
			fc := &FuncContract{Pkg: pkgPath, Line: rc.line, File: file, Extern: kw == "extern",
				LoopHavoc: map[int][]string{}, After: map[int][]string{}, Unroll: map[int]int{}, Opts: map[string]string{}}
			if kw == "extern" {
				name, ps, rs, err := parseExternSig(rest)
				if err != nil {
					return errf("%v", err)
				}
				fc.Key, fc.ExtParams, fc.ExtResults = strings.ReplaceAll(name, ",", ""), ps, rs
				fc.Pkg = ""
			} else {
				fc.Key = rest
			}
			k := fc.Pkg + "::" + fc.Key
			if _, dup := c.Funcs[k]; dup {
				return errf("duplicate contract for %s", k)
			}
			c.Funcs[k] = fc
			c.FuncOrd = append(c.FuncOrd, k)
			cur, curLemma = fc, nil
		case "lemma", "axiom":
			label, props, body := splitLabel(rest)
			lm := &Lemma{Label: label, Props: props, Pkg: pkgPath, Line: rc.line, File: file, Axiom: kw == "axiom"}
			if strings.HasPrefix(body, "by induction on ") {
				r := strings.TrimPrefix(body, "by induction on ")
				k := strings.Index(r, "::")
				if k < 0 {
					return errf("lemma: expected :: after induction variable")
				}
				lm.Induct = strings.TrimSpace(r[:k])
				body = strings.TrimSpace(r[k+2:])
			}
			e, err := parseExpr(body)
			if err != nil {
				return errf("%v", err)
			}
			lm.Src, lm.E = body, e
			c.Lemmas = append(c.Lemmas, lm)
			cur, curLemma = nil, lm
		case "reveal":
			if curLemma != nil {
				curLemma.Reveal = append(curLemma.Reveal, strings.Fields(strings.ReplaceAll(rest, ",", " "))...)
			} else if cur != nil {
				cur.Opts["reveal"] += " " + rest
			}
		case "hint":
			if curLemma != nil {
				curLemma.Hints = append(curLemma.Hints, rest)
			} else if cur != nil {
				cur.Opts["hint"] += "\x00" + rest
			}
		case "congruence":
			f := strings.Fields(rest)
			if len(f) < 3 {
				return errf("congruence <spec> <slice param> <length param> [props…]")
			}
			c.Congs = append(c.Congs, &Congruence{Fn: f[0], SliceParam: f[1], LenParam: f[2], Props: f[3:], Line: rc.line, File: file})
			cur, curLemma = nil, nil
		case "datainv":
			// datainv T x := expr
			k := strings.Index(rest, ":=")
			f := strings.Fields(rest[:max(k, 0)])
			if k < 0 || len(f) != 2 {
				return errf("datainv <Type> <var> := <expr>")
			}
			e, err := parseExpr(strings.TrimSpace(rest[k+2:]))
			if err != nil {
				return errf("%v", err)
			}
			c.DInvs = append(c.DInvs, &DataInv{Type: f[0], Var: f[1], Src: rest, E: e, Pkg: pkgPath, Line: rc.line, File: file})
			// the invariant is also available as the spec function inv<Type>(x)
			nm := "inv" + strings.ReplaceAll(f[0], ".", "")
			if _, dup := c.Specs[nm]; !dup {
				c.Specs[nm] = &SpecFunc{Name: nm, Params: []Param{{f[1], "*" + f[0]}}, Result: "bool", BodySrc: strings.TrimSpace(rest[k+2:]), Body: e, Pkg: pkgPath, Line: rc.line, File: file}
				c.SpecOrd = append(c.SpecOrd, nm)
			}
			cur, curLemma = nil, nil
		case "threadlocal":
			// threadlocal Type: objects of this type that a query writes are owned by the querying thread
			// (freshly allocated or taken from a pool); writes to their fields need no lock
			c.Guards = append(c.Guards, &Guard{Pkg: pkgPath, Type: strings.TrimSpace(rest), Mode: "threadlocal", File: file, Line: rc.line})
			cur, curLemma = nil, nil
		case "guardedby":
			// guardedby Type.Field Mutex mode
			f := strings.Fields(rest)
			if len(f) != 3 || !strings.Contains(f[0], ".") {
				return errf("guardedby Type.Field Mutex rw|writeonce|map|calls")
			}
			k := strings.Index(f[0], ".")
			c.Guards = append(c.Guards, &Guard{Pkg: pkgPath, Type: f[0][:k], Field: f[0][k+1:], Mutex: f[1], Mode: f[2], File: file, Line: rc.line})
			cur, curLemma = nil, nil
		case "globalinv":
			// globalinv [label props] <global> :: expr
			gi := &GlobalInv{Pkg: pkgPath, Line: rc.line, File: file}
			rest = strings.TrimSpace(rest)
			if strings.HasPrefix(rest, "[") {
				k := strings.Index(rest, "]")
				if k < 0 {
					return errf("globalinv: missing ]")
				}
				f := strings.Fields(rest[1:k])
				if len(f) > 0 {
					gi.Label = f[0]
					gi.Props = f[1:]
					if i := strings.Index(f[0], ":"); i > 0 {
						gi.Props = append([]string{f[0][:i]}, gi.Props...)
					}
				}
				rest = strings.TrimSpace(rest[k+1:])
				k = strings.Index(rest, "::")
				if k < 0 {
					return errf("globalinv: expected <global> :: expr")
				}
				gi.Global = strings.TrimSpace(rest[:k])
				rest = strings.TrimSpace(rest[k+2:])
			}
			e, err := parseExpr(rest)
			if err != nil {
				return errf("%v", err)
			}
			gi.Src, gi.E = rest, e
			c.GInvs = append(c.GInvs, gi)
		default:
			if cur == nil && curLemma != nil && kw == "use" {
				curLemma.Uses = append(curLemma.Uses, strings.Fields(rest)...)
				continue
			}
			if cur == nil {
				return errf("clause %q outside of a func block", kw)
			}
			switch kw {
			case "use":
				cur.Uses = append(cur.Uses, strings.Fields(rest)...)
			case "props":
				cur.Props = append(cur.Props, strings.Fields(rest)...)
			case "inline":
				cur.Inline = true
			case "trusted":
				cur.Trusted = true
			case "pure":
				cur.Pure = true
			case "functional":
				cur.Pure = true
				cur.Functional = true
			case "nosafety":
				cur.NoSafety = true
			case "opt":
				kv := strings.SplitN(rest, "=", 2)
				if len(kv) == 2 {
					cur.Opts[strings.TrimSpace(kv[0])] = strings.TrimSpace(kv[1])
				} else {
					cur.Opts[rest] = "1"
				}
			case "assigns":
				cur.HasAssigns = true
				if rest != "nothing" {
					for _, a := range strings.Split(rest, ",") {
						cur.Assigns = append(cur.Assigns, strings.TrimSpace(a))
					}
				}
			case "assume":
				e, err := parseExpr(rest)
				if err != nil {
					return errf("%v", err)
				}
				cur.Assumes = append(cur.Assumes, &Clause{Kind: "assume", Src: rest, E: e, Line: rc.line, File: file})
			case "requires", "ensures", "ensures!":
				assumed := kw == "ensures!"
				if assumed {
					kw = "ensures"
				}
				label, props, body := splitLabel(rest)
				e, err := parseExpr(body)
				if err != nil {
					return errf("%v", err)
				}
				cl := &Clause{Kind: kw, Label: label, Props: props, Src: body, E: e, Line: rc.line, File: file, Assumed: assumed}
				if kw == "requires" {
					cur.Requires = append(cur.Requires, cl)
				} else {
					cur.Ensures = append(cur.Ensures, cl)
				}
			case "loop":
				var n int
				var sub string
				if _, err := fmt.Sscanf(rest, "%d %s", &n, &sub); err != nil {
					return errf("loop clause: %v", err)
				}
				body := strings.TrimSpace(rest[strings.Index(rest, sub)+len(sub):])
				switch sub {
				case "invariant", "decreases":
					label, props, b2 := splitLabel(body)
					e, err := parseExpr(b2)
					if err != nil {
						return errf("%v", err)
					}
					cl := &Clause{Kind: sub, Label: label, Props: props, Src: b2, E: e, Loop: n, Line: rc.line, File: file}
					if sub == "invariant" {
						cur.Invs = append(cur.Invs, cl)
					} else {
						cur.Decs = append(cur.Decs, cl)
					}
				case "havoc":
					cur.LoopHavoc[n] = append(cur.LoopHavoc[n], strings.Fields(strings.ReplaceAll(body, ",", " "))...)
				case "then-assigns":
					// loop N then-assigns a, b | nothing: what the code after loop N may still write
					lst := []string{}
					if body != "nothing" {
						for _, a := range strings.Split(body, ",") {
							lst = append(lst, strings.TrimSpace(a))
						}
					}
					cur.After[n] = lst
				case "unroll":
					var k int
					fmt.Sscanf(body, "%d", &k)
					cur.Unroll[n] = k
				default:
					return errf("unknown loop clause %q", sub)
				}
			}
		}
	}
	return nil
}

// splitLabel parses an optional leading "[C07:eq-spec C06 C02]".
func splitLabel(s string) (label string, props []string, rest string) {
	s = strings.TrimSpace(s)
	if !strings.HasPrefix(s, "[") {
		return "", nil, s
	}
	k := strings.Index(s, "]")
	if k < 0 {
		return "", nil, s
	}
	parts := strings.Fields(s[1:k])
	if len(parts) == 0 {
		return "", nil, strings.TrimSpace(s[k+1:])
	}
	// a label looks like Cnn:name; otherwise it is not a label (e.g. a range)
	if !(len(parts[0]) >= 3 && parts[0][0] >= 'A' && parts[0][0] <= 'Z' && strings.Contains(parts[0], ":")) &&
		!(len(parts[0]) >= 3 && parts[0][0] == 'C' && parts[0][1] >= '0' && parts[0][1] <= '9') {
		return "", nil, s
	}
	label = parts[0]
	for _, p := range parts {
		pr := p
		if i := strings.Index(p, ":"); i >= 0 {
			pr = p[:i]
		}
		props = append(props, pr)
	}
	return label, props, strings.TrimSpace(s[k+1:])
}

// parseSpecDecl parses: [rec|opaque|trigger]* name(a T, b U) R [:= expr]
func parseSpecDecl(s string) (*SpecFunc, error) {
	sf := &SpecFunc{}
	for {
		switch {
		case strings.HasPrefix(s, "rec "):
			sf.Rec = true
			s = strings.TrimSpace(s[4:])
			continue
		case strings.HasPrefix(s, "opaque "):
			sf.Opaque = true
			s = strings.TrimSpace(s[7:])
			continue
		case strings.HasPrefix(s, "trigger "):
			sf.Trigger = true
			s = strings.TrimSpace(s[8:])
			continue
		case strings.HasPrefix(s, "inline "):
			sf.Inline = true
			s = strings.TrimSpace(s[7:])
			continue
		case strings.HasPrefix(s, "valued "):
			sf.Valued = true
			s = strings.TrimSpace(s[7:])
			continue
		case strings.HasPrefix(s, "reads("):
			// an uninterpreted function that depends on the listed heaps
			k := strings.Index(s, ")")
			if k < 0 {
				return nil, fmt.Errorf("spec: reads( without )")
			}
			for _, h := range strings.Split(s[6:k], ",") {
				sf.Reads = append(sf.Reads, strings.TrimSpace(h))
			}
			s = strings.TrimSpace(s[k+1:])
			continue
		}
		break
	}
	lp := strings.Index(s, "(")
	if lp < 0 {
		return nil, fmt.Errorf("spec: expected (")
	}
	sf.Name = strings.TrimSpace(s[:lp])
	depth := 0
	rp := -1
	for i := lp; i < len(s); i++ {
		if s[i] == '(' {
			depth++
		} else if s[i] == ')' {
			depth--
			if depth == 0 {
				rp = i
				break
			}
		}
	}
	if rp < 0 {
		return nil, fmt.Errorf("spec %s: unbalanced parens", sf.Name)
	}
	ps, err := parseParams(s[lp+1 : rp])
	if err != nil {
		return nil, fmt.Errorf("spec %s: %v", sf.Name, err)
	}
	sf.Params = ps
	rest := strings.TrimSpace(s[rp+1:])
	if k := strings.Index(rest, ":="); k >= 0 {
		sf.Result = strings.TrimSpace(rest[:k])
		sf.BodySrc = strings.TrimSpace(rest[k+2:])
		e, err := parseExpr(sf.BodySrc)
		if err != nil {
			return nil, fmt.Errorf("spec %s: %v", sf.Name, err)
		}
		sf.Body = e
	} else {
		sf.Result = rest
		sf.Uninter = true
	}
	if sf.Result == "" {
		return nil, fmt.Errorf("spec %s: missing result type", sf.Name)
	}
	return sf, nil
}

// parseParams parses "a, b T, c U" (Go-style grouped names).
func parseParams(s string) ([]Param, error) {
	s = strings.TrimSpace(s)
	if s == "" {
		return nil, nil
	}
	var parts []string
	depth := 0
	last := 0
	for i, c := range s {
		switch c {
		case '(', '[':
			depth++
		case ')', ']':
			depth--
		case ',':
			if depth == 0 {
				parts = append(parts, strings.TrimSpace(s[last:i]))
				last = i + 1
			}
		}
	}
	parts = append(parts, strings.TrimSpace(s[last:]))
	var out []Param
	var pending []string
	for _, p := range parts {
		f := strings.SplitN(p, " ", 2)
		if len(f) == 1 {
			pending = append(pending, f[0])
			continue
		}
		ty := strings.TrimSpace(f[1])
		for _, n := range pending {
			out = append(out, Param{n, ty})
		}
		pending = nil
		out = append(out, Param{f[0], ty})
	}
	if len(pending) > 0 {
		return nil, fmt.Errorf("parameters without type: %v", pending)
	}
	return out, nil
}

// parseExternSig parses: pkg/path.Func(a T, b U) (r R, err error)   or  (T).Method(...)
func parseExternSig(s string) (name string, ps, rs []Param, err error) {
	// find the parameter list: the last top-level "(...)" group(s)
	// name ends at the '(' that starts params: scan for first '(' not at position 0-group of receiver.
	i := 0
	if strings.HasPrefix(s, "(") {
		// receiver form "(*pkg.T).Method("
		k := strings.Index(s, ").")
		if k < 0 {
			return "", nil, nil, fmt.Errorf("extern: bad receiver in %q", s)
		}
		i = k + 2
	}
	lp := strings.Index(s[i:], "(")
	if lp < 0 {
		return "", nil, nil, fmt.Errorf("extern: expected ( in %q", s)
	}
	lp += i
	name = strings.TrimSpace(s[:lp])
	depth := 0
	rp := -1
	for j := lp; j < len(s); j++ {
		if s[j] == '(' {
			depth++
		} else if s[j] == ')' {
			depth--
			if depth == 0 {
				rp = j
				break
			}
		}
	}
	if rp < 0 {
		return "", nil, nil, fmt.Errorf("extern: unbalanced parens")
	}
	ps, err = parseParams(s[lp+1 : rp])
	if err != nil {
		return
	}
	rest := strings.TrimSpace(s[rp+1:])
	if rest != "" {
		if strings.HasPrefix(rest, "(") && strings.HasSuffix(rest, ")") {
			rs, err = parseParams(rest[1 : len(rest)-1])
		} else {
			rs = []Param{{"result", rest}}
		}
	}
	return
}
