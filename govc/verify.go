package main

// Top-level VC generation for functions and lemmas.

import (
	"fmt"
	"go/types"
	"strings"

	"golang.org/x/tools/go/ssa"
)

func shortFn(fn *ssa.Function) string {
	n := fn.Name()
	return smtName(n) + "!"
}

// discoverLoops runs the body once without havoc to learn which heap keys
// each loop writes.
func (w *World) discoverLoops(fn *ssa.Function, fc *FuncContract) map[*ssa.BasicBlock]*loopInfo {
	vc := NewVC(w, "discover:"+relName(fn))
	fr := &frame{vc: vc, w: w, fn: fn, fc: fc, prefix: "d!", isDiscovery: true, callCount: map[string]int{},
		hdrHeaps: map[*ssa.BasicBlock]*Heap{}}
	fr.entry = vc.entryHeap("0")
	st := &State{reach: True, heap: fr.entry}
	var args, free []*Val
	defer func() {
		if r := recover(); r != nil {
			if _, ok := r.(execErr); ok {
				return // the real pass will report it
			}
			panic(r)
		}
	}()
	for _, p := range fn.Params {
		args = append(args, fr.freshParam("d!"+p.Name(), p.Type(), st))
	}
	for _, p := range fn.FreeVars {
		free = append(free, fr.freshParam("d!"+p.Name(), p.Type(), st))
	}
	fr.run(st, args, free)
	return fr.loops
}

// freshParam: a symbolic argument.  Pointers to repo structs and scalars are
// terms; function-typed parameters are opaque.
func (fr *frame) freshParam(name string, t types.Type, st *State) *Val {
	if _, ok := types.Unalias(t).Underlying().(*types.Signature); ok {
		return &Val{T: fr.vc.fresh(name, SInt), Ty: t}
	}
	return fr.freshVal(name, t, st)
}

type assignEntry struct {
	key string // heap key, or prefix ending in ".*" semantics handled by keys list
	ref *Term  // nil: whole key
	all bool
}

// VerifyFunc generates the VC of the function with the given contract key.
func (w *World) VerifyFunc(key string) (vc *VC, err error) {
	fn := w.findFunc(key)
	if fn == nil {
		return nil, fmt.Errorf("contract for %s: no such function in the code (contract cannot be bound)", key)
	}
	fc := w.cons.Funcs[key]
	w.regAllocKeys()
	w.registerLockHeaps()
	vc = NewVC(w, relName(fn))
	if fc != nil {
		if f, ok := fc.Opts["fuel"]; ok {
			fmt.Sscanf(f, "%d", &vc.fuel)
		}
		for _, r := range strings.Fields(strings.ReplaceAll(fc.Opts["reveal"], ",", " ")) {
			vc.reveal[r] = true
		}
	}
	defer func() {
		if r := recover(); r != nil {
			switch e := r.(type) {
			case execErr:
				err = fmt.Errorf("%s", e.msg)
			case compErr:
				err = fmt.Errorf("%s: %s", relName(fn), string(e))
			default:
				panic(r)
			}
		}
	}()
	disc := w.discoverLoops(fn, fc)
	fr := &frame{vc: vc, w: w, fn: fn, fc: fc, prefix: shortFn(fn), top: true, discover: disc, callCount: map[string]int{},
		hdrHeaps: map[*ssa.BasicBlock]*Heap{}}
	fr.entry = vc.entryHeap("0")
	st := &State{reach: True, heap: fr.entry}
	fr.lockEntry(st)
	var args, free []*Val
	for _, p := range fn.Params {
		args = append(args, fr.freshParam(smtName(p.Name()), p.Type(), st))
	}
	for _, p := range fn.FreeVars {
		free = append(free, fr.freshParam(smtName(p.Name()), p.Type(), st))
	}
	fr.params = args
	fr.vals = map[ssa.Value]*Val{}
	for i, fv := range fn.FreeVars {
		fr.vals[fv] = free[i]
		if free[i].T != nil && isPtrLike(fv.Type()) {
			vc.assume(True, Not(Eq(free[i].T, IntLit(0)))) // a captured variable's cell
		}
	}
	fname := relName(fn)
	// thin default contract: pointer parameters are non-nil unless the body
	// itself tests them against nil; data invariants of parameter types hold
	for i, p := range fn.Params {
		if args[i].T == nil {
			continue
		}
		if isPtrLike(p.Type()) && !nilTolerant(fn, i) && !(fc != nil && strings.Contains(" "+fc.Opts["nilable"]+" ", " "+p.Name()+" ")) {
			vc.assume(True, Not(Eq(args[i].T, IntLit(0))))
		}
		if fc != nil && strings.Contains(" "+fc.Opts["nodatainv"]+" ", " "+p.Name()+" ") {
			continue
		}
		for _, t := range w.dataInvTerms(args[i], fr.entry, vc) {
			vc.assume(True, t)
		}
	}
	// global invariants are assumed at entry -- except in the package
	// initialisers, where the one that establishes an invariant starts from
	// the value of the composite literal and has to prove it
	var establish []*GlobalInv
	for _, gi := range w.cons.GInvs {
		if gi.Global != "" {
			g := w.ginvGlobal(gi)
			if g == nil {
				vc.errorf("%s:%d: globalinv: no package-level variable %s", gi.File, gi.Line, gi.Global)
				continue
			}
			if fc != nil && fc.Pkg == gi.Pkg && strings.Contains(" "+fc.Opts["establishes"]+" ", " "+gi.Global+" ") {
				facts, ok := w.literalFacts(g, fr.entry)
				if !ok {
					vc.errorf("%s:%d: globalinv: %s is not initialised by a composite literal of constants", gi.File, gi.Line, gi.Global)
					continue
				}
				for _, other := range w.explicitInits(gi.Pkg) {
					if other != fn && mentionsGlobal(other, g) {
						vc.errorf("%s:%d: globalinv: %s is also used by %s", gi.File, gi.Line, gi.Global, other.Name())
					}
				}
				if ok, why := w.globalStable(g); !ok {
					vc.errorf("%s:%d: globalinv: %s is not stable: %s", gi.File, gi.Line, gi.Global, why)
				}
				for _, f := range facts {
					vc.assume(True, f)
				}
				vc.note("global %s: initial value taken from its composite literal in the package initialiser", gi.Global)
				establish = append(establish, gi)
				continue
			}
			if isInitFunc(fn) {
				continue
			}
			if w.establisher(gi) == "" {
				vc.note("unchecked assumption: globalinv %s (no function establishes it)", gi.Label)
			} else if ok, _ := w.globalStable(g); !ok {
				continue // reported where it is established
			}
		} else {
			vc.note("unchecked assumption: globalinv %s", gi.Src)
		}
		env := &Env{w: w, pkg: gi.Pkg, vars: map[string]TV{}, used: vc.used, heap: fr.entry.get, old: fr.entry.get}
		env.lookup = w.globalLookup(fr.entry, gi.Pkg)
		t, e := env.CompileBool(gi.E)
		if e != nil {
			vc.errorf("%s:%d: globalinv: %v", gi.File, gi.Line, e)
			continue
		}
		vc.assume(True, t)
	}
	// registries: the key set of a global map built once by the package
	// initialiser (no other function writes it: checked syntactically)
	for _, tk := range w.cons.FuncOrd {
		tc := w.cons.Funcs[tk]
		reg := tc.Opts["registry"]
		if reg == "" {
			continue
		}
		sp := w.spkgs[tc.Pkg]
		if sp == nil {
			continue
		}
		g, ok := sp.Members[reg].(*ssa.Global)
		if !ok {
			continue
		}
		mt, ok := types.Unalias(g.Type().(*types.Pointer).Elem()).Underlying().(*types.Map)
		if !ok || w.globalWritten(g) {
			continue
		}
		_, mh := w.mapHeaps(mt)
		m := fr.entry.get(w.globalHeap(g))
		k := Sym(freshBinder("k"), w.sortOf(mt.Key()))
		var alts []*Term
		for _, e := range w.registry(tc.Pkg, reg) {
			alts = append(alts, Eq(k, w.constTerm(e.key.Value, e.key.Type())))
		}
		has := Select(Select(fr.entry.get(mh), m), k)
		vc.assume(True, And(Not(Eq(m, IntLit(0))), Forall([]Binder{{k.Op, k.Sort}}, Eq(has, Or(alts...)), []*Term{has})))
		vc.note("registry %s: key set taken from the package initialiser", reg)
	}
	if fc != nil {
		for _, u := range fc.Uses {
			ax, e := w.lemmaAxiom(u, vc.used)
			if e != nil {
				vc.errorf("%s", e)
				continue
			}
			vc.assume(True, ax)
			if w.isAxiom(u) {
				vc.note("unchecked assumption (axiom %s)", u)
			} else {
				vc.note("uses lemma %s (proved separately)", u)
			}
		}
	}
	// preconditions
	if fc != nil {
		env := fr.contractEnv(fr.entry)
		env.lookup = w.globalLookup(fr.entry, env.pkg)
		var pres []*Term
		for _, cl := range fc.Requires {
			t, e := env.CompileBool(cl.E)
			if e != nil {
				vc.errorf("%s:%d: requires: %v", cl.File, cl.Line, e)
				continue
			}
			vc.assume(True, t)
			pres = append(pres, t)
		}
		for _, cl := range fc.Assumes {
			t, e := env.CompileBool(cl.E)
			if e != nil {
				vc.errorf("%s:%d: assume: %v", cl.File, cl.Line, e)
				continue
			}
			vc.assume(True, t)
			pres = append(pres, t)
			vc.note("unchecked assumption in %s: %s", fname, cl.Src)
		}
		if len(pres) > 0 {
			o := vc.oblige("cover", "cover/"+fname+"/pre", fr.props(), True, False, "")
			if o != nil {
				o.ExpectSat = true
			}
		}
		fr.assignsOK = fr.mkAssignsOK(fc, env)
		for n, lst := range fc.After {
			// the frame of the code after loop n: the function's frame narrowed to this list
			c2 := *fc
			c2.Assigns, c2.HasAssigns = lst, true
			if fr.afterOK == nil {
				fr.afterOK = map[int]func(string, *Term, *State) *Term{}
			}
			fr.afterOK[n] = fr.mkAssignsOK(&c2, env)
		}
	}
	res, out := fr.run(st, args, free)
	fr.lockExit(out.reach, out.heap)
	vc.replay = &replayInfo{fn: fn, params: args, result: res}
	// postconditions
	if fc != nil {
		env := fr.contractEnv(out.heap)
		env.lookup = w.globalLookup(out.heap, env.pkg)
		fr.bindResults(env, fn.Signature, res)
		for k, cl := range fc.Ensures {
			t, e := env.CompileBool(cl.E)
			if e != nil {
				vc.errorf("%s:%d: ensures: %v", cl.File, cl.Line, e)
				continue
			}
			nm := cl.Label
			if nm == "" {
				nm = fmt.Sprintf("%d", k+1)
			}
			if cl.Assumed {
				vc.note("unchecked assumption: postcondition of %s taken on trust: %s", fname, cl.Src)
				continue
			}
			if o := vc.oblige("post", fmt.Sprintf("post/%s/%s", fname, nm), clauseProps(cl, fr.props()), out.reach, t, fr.pos(fn.Pos())); o != nil {
				o.Src = cl.Src
			}
		}
		// per-field completeness: every field of the named struct must be
		// mentioned by some ensures clause (a field added later cannot be
		// left stale silently)
		if af := fc.Opts["allfields"]; af != "" {
			parts := strings.SplitN(af, ":", 2)
			if len(parts) == 2 {
				if t, e := w.resolveType(parts[0], env.pkg); e == nil {
					if st, ok := w.repoStruct(t); ok {
						lbl := fc.Opts["allfields-label"]
						for i := 0; i < st.NumFields(); i++ {
							name := st.Field(i).Name()
							found := false
							for _, cl := range fc.Ensures {
								if strings.Contains(cl.Src, parts[1]+"."+name) {
									found = true
								}
							}
							if !found {
								ps := fr.props()
								if lbl != "" {
									ps = append([]string{lbl}, ps...)
								}
								vc.oblige("post", fmt.Sprintf("post/%s/field-not-specified:%s", fname, name), ps, out.reach, False, fr.pos(fn.Pos()))
							}
						}
					}
				}
			}
		}
		for _, gi := range establish {
			genv := &Env{w: w, pkg: gi.Pkg, vars: map[string]TV{}, used: vc.used, heap: out.heap.get, old: fr.entry.get}
			genv.lookup = w.globalLookup(out.heap, gi.Pkg)
			t, e := genv.CompileBool(gi.E)
			if e != nil {
				vc.errorf("%s:%d: globalinv: %v", gi.File, gi.Line, e)
				continue
			}
			ps := gi.Props
			if len(ps) == 0 {
				ps = fr.props()
			}
			if o := vc.oblige("post", fmt.Sprintf("globalinv/%s/%s", fname, gi.Label), ps, out.reach, t, fr.pos(fn.Pos())); o != nil {
				o.Src = gi.Src
			}
		}
		if len(fc.Ensures) > 0 {
			o := vc.oblige("cover", "cover/"+fname+"/return", fr.props(), out.reach, False, "")
			if o != nil {
				o.ExpectSat = true
			}
		}
	}
	return vc, nil
}

// globalLookup resolves package-level variables by name in contracts.
func (w *World) globalLookup(h *Heap, pkgPath string) func(string) (TV, bool) {
	return func(name string) (TV, bool) {
		sp := w.spkgs[pkgPath]
		if sp == nil {
			return TV{}, false
		}
		if i := strings.Index(name, "."); i > 0 {
			// imported.Var: a package-level variable of a package this one imports
			var dep *ssa.Package
			for _, imp := range sp.Pkg.Imports() {
				if imp.Name() == name[:i] {
					dep = sp.Prog.ImportedPackage(imp.Path())
				}
			}
			if dep == nil {
				return TV{}, false
			}
			sp, name = dep, name[i+1:]
		}
		g, ok := sp.Members[name].(*ssa.Global)
		if !ok {
			return TV{}, false
		}
		t := g.Type().(*types.Pointer).Elem()
		if w.sortOf(t) == "" {
			return TV{}, false
		}
		return TV{T: h.get(w.globalHeap(g)), Ty: t}, true
	}
}

func (fr *frame) mkAssignsOK(fc *FuncContract, env *Env) func(key string, ref *Term, st *State) *Term {
	if !fc.HasAssigns {
		return nil
	}
	w := fr.w
	type entry struct {
		keys map[string]bool
		ref  *Term
		all  bool
	}
	var entries []entry
	for _, a := range fc.Assigns {
		switch {
		case a == "everything":
			entries = append(entries, entry{all: true})
		case strings.HasPrefix(a, "heap "):
			entries = append(entries, entry{keys: map[string]bool{strings.TrimSpace(a[5:]): true}})
		case strings.HasSuffix(a, "[*]"):
			e, err := parseExpr(strings.TrimSuffix(a, "[*]"))
			if err != nil {
				fr.vc.errorf("assigns: %v", err)
				continue
			}
			tv, err := env.Compile(e)
			if err != nil || tv.T == nil || tv.T.Sort != SSlice {
				fr.vc.errorf("assigns: %q is not a slice: %v", a, err)
				continue
			}
			el := types.Unalias(tv.Ty).Underlying().(*types.Slice).Elem()
			entries = append(entries, entry{keys: map[string]bool{w.elemHeap(el): true}, ref: SlArr(tv.T)})
		case strings.HasPrefix(a, "ghost(") && strings.HasSuffix(a, ")"):
			e, err := parseExpr(a[6 : len(a)-1])
			if err != nil {
				fr.vc.errorf("assigns: %v", err)
				continue
			}
			tv, err := env.Compile(e)
			if err != nil || tv.T == nil || tv.T.Sort != SInt {
				fr.vc.errorf("assigns: %q: not an object reference (%v)", a, err)
				continue
			}
			entries = append(entries, entry{keys: map[string]bool{"GH:int": true}, ref: tv.T})
		case strings.HasPrefix(a, "*"):
			e, err := parseExpr(a[1:])
			if err != nil {
				fr.vc.errorf("assigns: %v", err)
				continue
			}
			tv, err := env.Compile(e)
			if err != nil || tv.T == nil {
				fr.vc.errorf("assigns: %q: %v", a, err)
				continue
			}
			pt, ok := types.Unalias(tv.Ty).Underlying().(*types.Pointer)
			if !ok {
				fr.vc.errorf("assigns: %q is not a pointer", a)
				continue
			}
			entries = append(entries, entry{keys: map[string]bool{w.cellHeap(pt.Elem()): true}, ref: tv.T})
		default:
			k := strings.LastIndex(a, ".")
			if k < 0 {
				fr.vc.errorf("assigns: cannot parse %q", a)
				continue
			}
			e, err := parseExpr(a[:k])
			if err != nil {
				fr.vc.errorf("assigns: %v", err)
				continue
			}
			tv, err := env.Compile(e)
			if err != nil || tv.T == nil {
				fr.vc.errorf("assigns: %q: %v", a, err)
				continue
			}
			pt, ok := types.Unalias(tv.Ty).Underlying().(*types.Pointer)
			if !ok {
				fr.vc.errorf("assigns: %q is not a pointer", a[:k])
				continue
			}
			stt, ok := w.repoStruct(pt.Elem())
			if !ok {
				fr.vc.errorf("assigns: %q does not point to a repo struct", a[:k])
				continue
			}
			keys := map[string]bool{}
			var collect func(prefix string, s *types.Struct, only string)
			collect = func(prefix string, s *types.Struct, only string) {
				for i := 0; i < s.NumFields(); i++ {
					f := s.Field(i)
					if only != "*" && f.Name() != only {
						continue
					}
					if sub, ok := w.repoStruct(f.Type()); ok {
						collect(prefix+"."+f.Name(), sub, "*")
					} else {
						keys[w.fieldHeapP(prefix, s, i)] = true
					}
				}
			}
			collect(structPrefix(pt.Elem()), stt, a[k+1:])
			entries = append(entries, entry{keys: keys, ref: tv.T})
		}
	}
	entry0 := fr.entry
	return func(key string, ref *Term, st *State) *Term {
		var alts []*Term
		if key != "*" && ref != nil {
			// writing "into" the nil array / nil object never happens
			alts = append(alts, Eq(ref, IntLit(0)))
			al := alKey
			if strings.HasPrefix(key, "E:") {
				al = alAKey
			}
			alts = append(alts, Not(Select(entry0.get(al), ref)))
		}
		for _, e := range entries {
			switch {
			case e.all:
				return True
			case key == "*":
			case e.keys[key] && e.ref == nil:
				return True
			case e.keys[key] && ref != nil:
				alts = append(alts, Eq(ref, e.ref))
			}
		}
		return Or(alts...)
	}
}

// ---------------------------------------------------------------- lemmas

// lemmaAxiom turns a (separately proved) lemma into a universally quantified
// fact: its binders and every heap array it reads become bound variables.
func (w *World) lemmaAxiom(label string, used *Usage) (*Term, error) {
	var lm *Lemma
	for _, l := range w.cons.Lemmas {
		if l.Label == label || strings.HasSuffix(l.Label, ":"+label) {
			lm = l
		}
	}
	if lm == nil {
		return nil, fmt.Errorf("use: no lemma %q", label)
	}
	binderCounter++
	tag := fmt.Sprintf("q!lm%d!", binderCounter)
	var bs []Binder
	seenH := map[string]*Term{}
	env := &Env{w: w, pkg: lm.Pkg, vars: map[string]TV{}, used: used}
	env.heap = func(key string) *Term {
		if t, ok := seenH[key]; ok {
			return t
		}
		t := Sym(tag+smtName("h!"+key), w.heapSort[key])
		seenH[key] = t
		bs = append(bs, Binder{t.Op, t.Sort})
		return t
	}
	env.old = env.heap
	e := lm.E
	var guards []*Term
	for {
		q, ok := e.(EQuant)
		if !ok || !q.Forall {
			break
		}
		for _, qv := range q.Vars {
			var ty types.Type = types.Typ[types.Int]
			if qv.Type != "" {
				t, err := w.resolveType(qv.Type, lm.Pkg)
				if err != nil {
					return nil, err
				}
				ty = t
			}
			c := Sym(tag+smtName(qv.Name), w.sortOf(ty))
			env.vars[qv.Name] = TV{T: c, Ty: ty}
			bs = append(bs, Binder{c.Op, c.Sort})
			if qv.Lo != nil {
				lo, e1 := env.Compile(qv.Lo)
				hi, e2 := env.Compile(qv.Hi)
				if e1 != nil || e2 != nil {
					return nil, fmt.Errorf("lemma %s: %v %v", lm.Label, e1, e2)
				}
				guards = append(guards, Le(env.toSort(lo, ty).T, c), Lt(c, env.toSort(hi, ty).T))
			}
		}
		e = q.Body
	}
	body, err := env.CompileBool(e)
	if err != nil {
		return nil, fmt.Errorf("lemma %s: %v", lm.Label, err)
	}
	return Forall(bs, Implies(And(guards...), body)), nil
}

func (w *World) VerifyLemma(lm *Lemma) (vc *VC, err error) {
	w.regAllocKeys()
	vc = NewVC(w, "lemma:"+lm.Label)
	for _, r := range lm.Reveal {
		vc.reveal[r] = true
	}
	h := vc.entryHeap("0")
	env := &Env{w: w, pkg: lm.Pkg, vars: map[string]TV{}, used: vc.used, heap: h.get, old: h.get}
	e := lm.E
	// top-level universal quantifiers become free constants (skolemised goal)
	var guards []*Term
	for {
		q, ok := e.(EQuant)
		if !ok || !q.Forall {
			break
		}
		for _, qv := range q.Vars {
			var ty types.Type = types.Typ[types.Int]
			if qv.Type != "" {
				t, e2 := w.resolveType(qv.Type, lm.Pkg)
				if e2 != nil {
					return nil, e2
				}
				ty = t
			}
			s := w.sortOf(ty)
			if s == "" {
				return nil, fmt.Errorf("lemma %s: compound binder", lm.Label)
			}
			c := vc.declare("lem!"+smtName(qv.Name), s)
			env.vars[qv.Name] = TV{T: c, Ty: ty}
			vc.assume(True, vc.wfTerm(c, ty, nil, nil))
			if qv.Lo != nil {
				lo, e1 := env.Compile(qv.Lo)
				hi, e2 := env.Compile(qv.Hi)
				if e1 != nil || e2 != nil {
					return nil, fmt.Errorf("lemma %s: range: %v %v", lm.Label, e1, e2)
				}
				guards = append(guards, Le(env.toSort(lo, ty).T, c), Lt(c, env.toSort(hi, ty).T))
			}
		}
		e = q.Body
	}
	for _, u := range lm.Uses {
		ax, e2 := w.lemmaAxiom(u, vc.used)
		if e2 != nil {
			return nil, e2
		}
		vc.assume(True, ax)
	}
	for _, hsrc := range lm.Hints {
		he, e2 := parseExpr(hsrc)
		if e2 != nil {
			return nil, e2
		}
		// hints are proved first, then assumed
		t, e3 := env.CompileBool(he)
		if e3 != nil {
			return nil, fmt.Errorf("lemma %s: hint: %v", lm.Label, e3)
		}
		vc.oblige("lemma", "lemma/"+lm.Label+"/hint", lm.Props, And(guards...), t, "")
		vc.assume(And(guards...), t)
	}
	if lm.Induct != "" {
		// induction on an int binder n >= 0: base n == 0, step n-1 -> n
		nv, ok := env.vars[lm.Induct]
		if !ok {
			return nil, fmt.Errorf("lemma %s: induction variable %s is not a binder", lm.Label, lm.Induct)
		}
		goal, e2 := env.CompileBool(e)
		if e2 != nil {
			return nil, fmt.Errorf("lemma %s: %v", lm.Label, e2)
		}
		// IH: the statement with n replaced by n-1, universally in the other binders
		var bs []Binder
		sub := map[string]*Term{}
		for name, v := range env.vars {
			if name == lm.Induct {
				continue
			}
			b := freshBinder(name)
			bs = append(bs, Binder{b, v.T.Sort})
			sub[v.T.Op] = Sym(b, v.T.Sort)
		}
		sub[nv.T.Op] = Sub(nv.T, IntLit(1))
		ih := Forall(bs, Subst(Implies(And(guards...), goal), sub))
		vc.oblige("lemma", "lemma/"+lm.Label+"/base", lm.Props, And(append(guards, Le(nv.T, IntLit(0)))...), goal, "")
		o := vc.oblige("lemma", "lemma/"+lm.Label+"/step", lm.Props, And(append(guards, Gt(nv.T, IntLit(0)))...), goal, "")
		if o != nil {
			o.Extra = []*Term{ih}
		}
		return vc, nil
	}
	goal, e2 := env.CompileBool(e)
	if e2 != nil {
		return nil, fmt.Errorf("lemma %s: %v", lm.Label, e2)
	}
	if o := vc.oblige("lemma", "lemma/"+lm.Label, lm.Props, And(guards...), goal, ""); o != nil {
		o.Src = lm.Src
	}
	return vc, nil
}

func isPtrLike(t types.Type) bool {
	switch types.Unalias(t).Underlying().(type) {
	case *types.Pointer:
		return true
	}
	return false
}

// nilTolerant: the function compares parameter i with nil somewhere.
func nilTolerant(fn *ssa.Function, i int) bool {
	if i >= len(fn.Params) {
		return false
	}
	p := fn.Params[i]
	for _, ref := range *p.Referrers() {
		if bo, ok := ref.(*ssa.BinOp); ok {
			if c, ok := bo.Y.(*ssa.Const); ok && c.Value == nil {
				return true
			}
			if c, ok := bo.X.(*ssa.Const); ok && c.Value == nil {
				return true
			}
		}
	}
	return false
}

// dataInvTerms instantiates the data invariants declared for the type of v.
func (w *World) dataInvTerms(v *Val, h *Heap, vc *VC) []*Term {
	if v.T == nil {
		return nil
	}
	pt, ok := types.Unalias(v.Ty).Underlying().(*types.Pointer)
	if !ok {
		return nil
	}
	var out []*Term
	for _, di := range w.cons.DInvs {
		t, err := w.resolveType(di.Type, di.Pkg)
		if err != nil || !types.Identical(t, pt.Elem()) {
			continue
		}
		env := &Env{w: w, pkg: di.Pkg, vars: map[string]TV{di.Var: {T: v.T, Ty: v.Ty}}, used: vc.used, heap: h.get, old: h.get}
		tm, err := env.CompileBool(di.E)
		if err != nil {
			vc.errorf("%s:%d: datainv: %v", di.File, di.Line, err)
			continue
		}
		out = append(out, Implies(Not(Eq(v.T, IntLit(0))), tm))
	}
	return out
}

// globalWritten: some function other than the package initialiser stores to
// the global or updates the map it holds.
func (w *World) globalWritten(g *ssa.Global) bool {
	for path, sp := range w.spkgs {
		if sp == nil || !strings.HasPrefix(path, modPath) {
			continue
		}
		for _, fn := range w.allFuncs(path) {
			if fn.Name() == "init" && fn.Parent() == nil {
				continue
			}
			for _, b := range fn.Blocks {
				for _, ins := range b.Instrs {
					switch x := ins.(type) {
					case *ssa.Store:
						if x.Addr == g {
							return true
						}
					case *ssa.MapUpdate:
						if u, ok := x.Map.(*ssa.UnOp); ok && u.X == g {
							return true
						}
					}
				}
			}
		}
	}
	return false
}

func (w *World) isAxiom(label string) bool {
	for _, l := range w.cons.Lemmas {
		if (l.Label == label || strings.HasSuffix(l.Label, ":"+label)) && l.Axiom {
			return true
		}
	}
	return false
}

func mentionsGlobal(fn *ssa.Function, g *ssa.Global) bool {
	for _, b := range fn.Blocks {
		for _, ins := range b.Instrs {
			for _, op := range ins.Operands(nil) {
				if *op == ssa.Value(g) {
					return true
				}
			}
		}
	}
	for _, a := range fn.AnonFuncs {
		if mentionsGlobal(a, g) {
			return true
		}
	}
	return false
}
