package main

// Calls: builtins, inlining, modular application of contracts, frames, defers.

import (
	"fmt"
	"go/types"
	"math/big"
	"strings"

	"golang.org/x/tools/go/ssa"
)

func pow2(n int) *big.Int    { return new(big.Int).Lsh(big.NewInt(1), uint(n)) }
func pow2neg(n int) *big.Int { return new(big.Int).Neg(pow2(n)) }

// contractEnv: environment for the contract of fr.fn over the given heap.
func (fr *frame) contractEnv(h *Heap) *Env {
	env := &Env{w: fr.w, vars: map[string]TV{}, used: fr.vc.used}
	if fr.fn.Pkg != nil {
		env.pkg = fr.fn.Pkg.Pkg.Path()
	} else if p := fr.fn.Parent(); p != nil && p.Pkg != nil {
		env.pkg = p.Pkg.Pkg.Path()
	}
	env.heap = h.get
	env.old = fr.entry.get
	for _, fv := range fr.fn.FreeVars {
		if v, ok := fr.vals[fv]; ok && v.T != nil {
			// a captured variable is seen through its cell
			if pt, isPtr := types.Unalias(fv.Type()).Underlying().(*types.Pointer); isPtr {
				if _, isSt := fr.w.repoStruct(pt.Elem()); !isSt && fr.w.sortOf(pt.Elem()) != "" {
					env.vars[fv.Name()] = TV{T: Select(h.get(fr.w.cellHeap(pt.Elem())), v.T), Ty: pt.Elem()}
					continue
				}
			}
			env.vars[fv.Name()] = valTV(v)
		}
	}
	for i, p := range fr.fn.Params {
		if fr.params != nil && i < len(fr.params) && fr.params[i].Loc == nil && fr.params[i].Clo == nil && fr.params[i].Fn == nil {
			env.vars[p.Name()] = valTV(fr.params[i])
			env.vars["old!"+exprKey(EIdent{p.Name()})] = valTV(fr.params[i])
		}
	}
	return env
}

func (fr *frame) bindResults(env *Env, sig *types.Signature, res *Val) {
	n := sig.Results().Len()
	if n == 0 || res == nil {
		return
	}
	if n == 1 {
		env.vars["result"] = valTV(res)
		if nm := sig.Results().At(0).Name(); nm != "" && nm != "_" {
			env.vars[nm] = valTV(res)
		}
		return
	}
	env.vars["result"] = valTV(res)
	for i := 0; i < n; i++ {
		if nm := sig.Results().At(i).Name(); nm != "" && nm != "_" {
			env.vars[nm] = valTV(res.Fs[i])
		}
	}
}

// ---------------------------------------------------------------- call dispatch

func (fr *frame) call(x ssa.Instruction, c *ssa.CallCommon, st *State) *Val {
	var args []*Val
	for _, a := range c.Args {
		args = append(args, fr.get(a))
	}
	name := ""
	if v, ok := x.(ssa.Value); ok {
		name = fr.sym(v)
	} else {
		name = fr.prefix + "defer"
	}
	if c.IsInvoke() {
		recv := fr.get(c.Value)
		return fr.invoke(x, c, recv, args, st, name)
	}
	switch callee := c.Value.(type) {
	case *ssa.Builtin:
		return fr.builtin(x, callee, c, args, st, name)
	case *ssa.Function:
		return fr.callFunc(x, callee, args, nil, st, name)
	case *ssa.MakeClosure:
		var free []*Val
		for _, b := range callee.Bindings {
			free = append(free, fr.get(b))
		}
		return fr.callFunc(x, callee.Fn.(*ssa.Function), args, free, st, name)
	}
	fv := fr.get(c.Value)
	if fv.Clo != nil {
		var free []*Val
		for _, b := range fv.Clo.Bindings {
			free = append(free, fr.get(b))
		}
		return fr.callFunc(x, fv.Clo.Fn.(*ssa.Function), args, free, st, name)
	}
	if fv.Fn != nil {
		return fr.callFunc(x, fv.Fn, args, nil, st, name)
	}
	// dynamic call through a value of a named function type of the repo: the
	// contract of the type applies (every function stored under that type is
	// checked against it separately)
	if n, ok := types.Unalias(c.Value.Type()).(*types.Named); ok && n.Obj().Pkg() != nil {
		key := n.Obj().Pkg().Path() + "::" + n.Obj().Name()
		if fc, ok := fr.w.cons.Funcs[key]; ok {
			sig := c.Signature()
			var pn []string
			for i := 0; i < sig.Params().Len(); i++ {
				pn = append(pn, sig.Params().At(i).Name())
			}
			return fr.applyContract(x, sig, fc, pn, shortPath(n.Obj().Pkg().Path())+"."+n.Obj().Name(), args, st, name)
		}
	}
	// dynamic call of an unknown function value
	return fr.havocCall(x, c.Signature(), "dynamic call "+c.Value.Name(), st, name)
}

func (fr *frame) havocCall(x ssa.Instruction, sig *types.Signature, what string, st *State, name string) *Val {
	fr.vc.note("havoc: %s in %s has no contract (unknown result, may write anything)", what, relName(fr.fn))
	if !fr.isDiscovery {
		fr.frameCheckAll(st, x, what)
	}
	pre := st.heap
	st.heap = st.heap.havocAll("call")
	fr.allocGrows(pre, st.heap)
	return fr.freshResults(sig, st, name)
}

func (fr *frame) freshResults(sig *types.Signature, st *State, name string) *Val {
	n := sig.Results().Len()
	switch n {
	case 0:
		return &Val{Ty: sig.Results()}
	case 1:
		return fr.freshVal(name, sig.Results().At(0).Type(), st)
	}
	return fr.freshVal(name, sig.Results(), st)
}

func (fr *frame) allocGrows(pre, post *Heap) {
	for _, k := range []string{alKey, alAKey} {
		a, b := pre.get(k), post.get(k)
		if a == b {
			continue
		}
		x := Sym(freshBinder("x"), SInt)
		fr.vc.assume(True, Forall([]Binder{{x.Op, SInt}}, Implies(Select(a, x), Select(b, x)), []*Term{Select(b, x)}, []*Term{Select(a, x)}))
	}
}

var noopCalls = map[string]bool{
	"(*sync.Mutex).Lock": true, "(*sync.Mutex).Unlock": true,
	"(*sync.RWMutex).Lock": true, "(*sync.RWMutex).Unlock": true,
	"(*sync.RWMutex).RLock": true, "(*sync.RWMutex).RUnlock": true,
}

func (fr *frame) callFunc(x ssa.Instruction, callee *ssa.Function, args, free []*Val, st *State, name string) *Val {
	full := callee.String()
	if o := callee.Origin(); o != nil {
		full = o.String()
	}
	if noopCalls[full] {
		fr.lockOp(full, args, st, x)
		return &Val{Ty: callee.Signature.Results()}
	}
	poolOp := ""
	if strings.Contains(full, "syncutil.Pool") {
		switch {
		case strings.HasSuffix(full, ".Get"):
			poolOp = "Get"
		case strings.HasSuffix(full, ".Put"):
			poolOp = "Put"
		}
	}
	if poolOp != "" {
		// pooled objects: exclusively owned between Get and Put (ghost ownership, see locks.go)
		if poolOp == "Put" && len(args) >= 2 {
			fr.poolPut(args[1], st, x)
		}
		var v *Val
		if fc := fr.w.contractFor(callee); fc != nil {
			v = fr.applyContract(x, callee.Signature, fc, paramNames(callee), relName(callee), args, st, name)
		} else {
			v = fr.havocCall(x, callee.Signature, "call of "+relName(callee), st, name)
		}
		if poolOp == "Get" {
			fr.poolGet(v, st)
		}
		return v
	}
	fc := fr.w.contractFor(callee)
	anon := callee.Parent() != nil
	if fr.w.inRepo(callee) && !anon && !(fc != nil && fc.Inline) && !fr.isDiscovery {
		// thin default contract of repo functions: non-nil pointer arguments, data invariants
		for i, a := range args {
			if a.T == nil || i >= len(callee.Params) {
				continue
			}
			pn := callee.Params[i].Name()
			if isPtrLike(callee.Params[i].Type()) && !nilTolerant(callee, i) && !(fc != nil && strings.Contains(" "+fc.Opts["nilable"]+" ", " "+pn+" ")) {
				fr.vc.oblige("pre", fmt.Sprintf("pre/%s->%s/nonnil:%s", relName(fr.fn), relName(callee), pn), fr.safetyProps(), st.reach, Not(Eq(a.T, IntLit(0))), fr.pos(x.Pos()))
				fr.vc.assume(st.reach, Not(Eq(a.T, IntLit(0))))
			}
			if fc != nil && strings.Contains(" "+fc.Opts["nodatainv"]+" ", " "+pn+" ") {
				continue
			}
			for k, t := range fr.w.dataInvTerms(a, st.heap, fr.vc) {
				fr.vc.oblige("pre", fmt.Sprintf("pre/%s->%s/datainv:%s#%d", relName(fr.fn), relName(callee), pn, k+1), fr.safetyProps(), st.reach, t, fr.pos(x.Pos()))
			}
		}
	}
	switch {
	case fc != nil && fc.Inline, anon && fc == nil && fr.w.inRepo(callee), fc == nil && fr.w.inRepo(callee) && autoInlinable(callee, 0):
		return fr.inline(x, callee, fc, args, free, st, name)
	case fc != nil:
		return fr.applyContract(x, callee.Signature, fc, paramNames(callee), relName(callee), args, st, name)
	}
	return fr.havocCall(x, callee.Signature, "call of "+relName(callee), st, name)
}

func paramNames(fn *ssa.Function) []string {
	var ns []string
	for _, p := range fn.Params {
		ns = append(ns, p.Name())
	}
	return ns
}


func (fr *frame) inline(x ssa.Instruction, callee *ssa.Function, fc *FuncContract, args, free []*Val, st *State, name string) *Val {
	if fr.depth > 6 {
		fr.fail(x.Pos(), "inlining too deep at %s", relName(callee))
	}
	sub := &frame{vc: fr.vc, w: fr.w, fn: callee, fc: fc, prefix: name + "$", entry: fr.entry, depth: fr.depth + 1,
		isDiscovery: fr.isDiscovery, assignsOK: fr.assignsOK, callCount: map[string]int{}, parent: fr,
		hdrHeaps: map[*ssa.BasicBlock]*Heap{}}
	if !fr.isDiscovery {
		// discovery pass for loops in the inlined body
		sub.discover = fr.w.discoverLoops(callee, fc)
	}
	res, out := sub.run(&State{reach: st.reach, heap: st.heap}, args, free)
	// continue only along returning paths
	fr.vc.assume(st.reach, out.reach)
	st.heap = out.heap
	if res == nil {
		return &Val{Ty: callee.Signature.Results()}
	}
	return res
}

// ---------------------------------------------------------------- modular calls

func (fr *frame) applyContract(x ssa.Instruction, sig *types.Signature, fc *FuncContract, pnames []string, cname string, args []*Val, st *State, name string) *Val {
	vc := fr.vc
	fr.callCount[cname]++
	site := fmt.Sprintf("%s->%s#%d", relName(fr.fn), cname, fr.callCount[cname])
	pre := st.heap
	mkEnv := func(h *Heap, old *Heap) *Env {
		env := &Env{w: fr.w, pkg: fc.Pkg, vars: map[string]TV{}, used: vc.used}
		env.heap = h.get
		env.old = old.get
		env.lookup = fr.w.globalLookup(h, fc.Pkg) // package-level variables (also of imported packages) named by the callee's contract
		names := pnames
		if fc.Extern {
			names = nil
			for _, p := range fc.ExtParams {
				names = append(names, p.Name)
			}
		}
		for i, a := range args {
			if i < len(names) && a.Loc == nil && a.Fn == nil && a.Clo == nil && a.It == nil {
				env.vars[names[i]] = valTV(a)
			}
			if i < len(names) && a.Clo != nil {
				env.vars[names[i]] = TV{Ty: a.Ty, Fs: []TV{}, Pred: fr.closurePred(a.Clo.Fn.(*ssa.Function), a.Clo.Bindings, h)}
			}
			if i < len(names) && a.Fn != nil {
				env.vars[names[i]] = TV{Ty: a.Ty, Fs: []TV{}, Pred: fr.closurePred(a.Fn, nil, h)}
			}
		}
		return env
	}
	// preconditions
	if !fr.isDiscovery {
		env := mkEnv(pre, pre)
		for k, cl := range fc.Requires {
			t, err := env.CompileBool(cl.E)
			if err != nil {
				vc.errorf("%s:%d: requires of %s at call in %s: %v", cl.File, cl.Line, cname, relName(fr.fn), err)
				continue
			}
			nm := cl.Label
			if nm == "" {
				nm = fmt.Sprintf("%d", k+1)
			}
			if o := vc.oblige("pre", fmt.Sprintf("pre/%s/%s", site, nm), fr.props(), st.reach, t, fr.pos(x.Pos())); o != nil {
				o.Src = cl.Src
			}
			vc.assume(st.reach, t)
		}
	}
	// effects
	post := pre
	if !fc.HasAssigns && !fc.Pure {
		if !fr.isDiscovery {
			fr.frameCheckAll(st, x, "call of "+cname+" (contract without assigns clause)")
		}
		post = pre.havocAll("call")
		vc.note("contract of %s has no assigns clause: heap havocked at calls", cname)
	} else if len(fc.Assigns) > 0 {
		env := mkEnv(pre, pre)
		for _, a := range fc.Assigns {
			post = fr.havocAssign(a, env, post, st, x, cname)
		}
	}
	if !fc.Pure {
		// the callee may allocate
		post = post.set(alKey, vc.fresh("Hc!"+alKey, fr.w.heapSort[alKey]))
		post = post.set(alAKey, vc.fresh("Hc!"+alAKey, fr.w.heapSort[alAKey]))
	}
	st.heap = post
	for k := range fr.w.heapSort {
		if strings.HasPrefix(k, "E:") {
			if _, touched := post.writes[k]; touched || post.writes["*"] > pre.writes["*"] {
				if a, b := post.get(k), pre.get(k); a != b {
					vc.noteSucc(k, a, b)
				}
			}
		}
	}
	fr.allocGrows(pre, post)
	// results
	var res *Val
	if fc.Functional && sig.Results().Len() == 1 && fr.w.sortOf(sig.Results().At(0).Type()) != "" {
		// functional: uninterpreted function of the (scalar) arguments
		var as []*Term
		var ss []Sort
		okArgs := true
		for _, a := range args {
			if a.T == nil {
				okArgs = false
				break
			}
			t := a.T
			immut := fc.Opts["immutable-args"] != ""
			if (t.Sort == SSlice || t.Sort == SIface) && !immut {
				okArgs = false // mutable content: not a function of the header
				break
			}
			if t.Sort == SInt && !immut {
				if _, isPtr := types.Unalias(a.Ty).Underlying().(*types.Pointer); isPtr {
					okArgs = false
					break
				}
			}
			if immut {
				vc.note("unchecked assumption: the objects passed to %s are immutable (rule fields are never written after construction)", cname)
			}
			as = append(as, t)
			ss = append(ss, t.Sort)
		}
		if okArgs {
			rs := fr.w.sortOf(sig.Results().At(0).Type())
			fn := "ext!" + smtName(fc.Key)
			if d := fc.Opts["defines"]; d != "" {
				// the function IS the meaning of the (uninterpreted) spec function d
				if dsig, err := fr.w.specSig(d); err == nil && dsig.sf.Uninter {
					fn = dsig.name
					vc.used.specs[d] = true
				} else {
					vc.errorf("contract of %s: defines=%s is not an uninterpreted spec function", cname, d)
				}
			} else {
				vc.declareFun(fn, ss, rs)
			}
			var t *Term
			valued := false
			if d := fc.Opts["defines"]; d != "" {
				if dsig, err := fr.w.specSig(d); err == nil && dsig.sf.Valued {
					valued = true
				}
			}
			if valued {
				was := make([]*Term, len(as))
				for i, a := range as {
					if a.Sort == SStr {
						was[i] = App("sv", "SV", a)
					} else {
						was[i] = a
					}
				}
				if rs == SStr {
					t = App("strof", SStr, App(fn, "SV", was...))
				} else {
					t = App(fn, rs, was...)
				}
			} else if len(as) == 0 {
				t = Sym(fn, rs)
			} else {
				t = App(fn, rs, as...)
			}
			res = &Val{T: vc.define(name, t), Ty: sig.Results().At(0).Type()}
			fr.assumeWF(res, st)
		}
	}
	if res == nil {
		res = fr.freshResults(sig, st, name)
	}
	if fc.Extern {
		vc.note("assumed contract: %s", fc.Key)
	}
	// postconditions
	env := mkEnv(post, pre)
	n := sig.Results().Len()
	if n >= 1 {
		env.vars["result"] = valTV(res)
		for i := 0; i < n; i++ {
			nm := sig.Results().At(i).Name()
			if fc.Extern && i < len(fc.ExtResults) {
				nm = fc.ExtResults[i].Name
			}
			if nm == "" || nm == "_" {
				continue
			}
			if n == 1 {
				env.vars[nm] = valTV(res)
			} else {
				env.vars[nm] = valTV(res.Fs[i])
			}
		}
	}
	for _, cl := range fc.Ensures {
		t, err := env.CompileBool(cl.E)
		if err != nil {
			vc.errorf("%s:%d: ensures of %s at call in %s: %v", cl.File, cl.Line, cname, relName(fr.fn), err)
			continue
		}
		if cl.Assumed {
			vc.note("unchecked assumption: postcondition of %s taken on trust: %s", cname, cl.Src)
		}
		vc.assume(st.reach, t)
	}
	return res
}

// derefGuard: the pointers dereferenced by a location expression must be
// non-nil for the location to exist (a nil-tolerant callee writes nothing then).
func derefGuard(env *Env, e Expr) *Term {
	var gs []*Term
	var walk func(e Expr)
	walk = func(e Expr) {
		switch x := e.(type) {
		case ESel:
			walk(x.X)
			if tv, err := env.Compile(x.X); err == nil && tv.T != nil && tv.T.Sort == SInt {
				if _, ok := types.Unalias(tv.Ty).Underlying().(*types.Pointer); ok {
					gs = append(gs, Not(Eq(tv.T, IntLit(0))))
				}
			}
		case EIndex:
			walk(x.X)
		}
	}
	walk(e)
	return And(gs...)
}

// havocAssign applies one assigns entry of a callee.
func (fr *frame) havocAssign(a string, env *Env, h *Heap, st *State, x ssa.Instruction, cname string) *Heap {
	vc := fr.vc
	w := fr.w
	switch {
	case a == "everything":
		if !fr.isDiscovery {
			fr.frameCheckAll(st, x, "call of "+cname+" (assigns everything)")
		}
		return h.havocAll("call")
	case strings.HasPrefix(a, "heap "):
		key := strings.TrimSpace(a[5:])
		if _, ok := w.heapSort[key]; !ok {
			vc.errorf("assigns of %s: unknown heap key %q", cname, key)
			return h
		}
		if !fr.isDiscovery {
			fr.frameCheck(key, nil, nil, st, x)
		}
		return h.set(key, vc.fresh("Hc!"+key, w.heapSort[key]))
	case strings.HasSuffix(a, "[*]"):
		e, err := parseExpr(strings.TrimSuffix(a, "[*]"))
		if err != nil {
			vc.errorf("assigns of %s: %v", cname, err)
			return h
		}
		tv, err := env.Compile(e)
		if err != nil || tv.T == nil || tv.T.Sort != SSlice {
			vc.errorf("assigns of %s: %q is not a slice (%v)", cname, a, err)
			return h
		}
		el := types.Unalias(tv.Ty).Underlying().(*types.Slice).Elem()
		key := w.elemHeap(el)
		arr := SlArr(tv.T)
		g := derefGuard(env, e)
		if !fr.isDiscovery {
			fr.frameCheckCond(key, arr, g, st, x)
		}
		_, inner, _ := w.heapSort[key].ArrParts()
		return h.set(key, Ite(g, Store(h.get(key), arr, vc.fresh("Hc!"+key, inner)), h.get(key)))
	case strings.HasPrefix(a, "ghost(") && strings.HasSuffix(a, ")"):
		// ghost(p): the ghost integer cell attached to object p
		e, err := parseExpr(a[6 : len(a)-1])
		if err != nil {
			vc.errorf("assigns of %s: %v", cname, err)
			return h
		}
		tv, err := env.Compile(e)
		if err != nil || tv.T == nil || tv.T.Sort != SInt {
			vc.errorf("assigns of %s: %q: not an object reference (%v)", cname, a, err)
			return h
		}
		if !fr.isDiscovery {
			fr.frameCheck("GH:int", tv.T, nil, st, x)
		}
		return h.set("GH:int", Store(h.get("GH:int"), tv.T, vc.fresh("Hc!GH", SInt)))
	case strings.HasPrefix(a, "*"):
		// *p : the cell p points to (pointer to a non-struct or external type)
		e, err := parseExpr(a[1:])
		if err != nil {
			vc.errorf("assigns of %s: %v", cname, err)
			return h
		}
		tv, err := env.Compile(e)
		if err != nil || tv.T == nil {
			vc.errorf("assigns of %s: %q: %v", cname, a, err)
			return h
		}
		pt, ok := types.Unalias(tv.Ty).Underlying().(*types.Pointer)
		if !ok {
			vc.errorf("assigns of %s: %q is not a pointer", cname, a)
			return h
		}
		key := w.cellHeap(pt.Elem())
		if !fr.isDiscovery {
			fr.frameCheck(key, tv.T, nil, st, x)
		}
		_, vs, _ := w.heapSort[key].ArrParts()
		return h.set(key, Store(h.get(key), tv.T, vc.fresh("Hc!"+key, vs)))
	default:
		// x.f  or x.*
		k := strings.LastIndex(a, ".")
		if k < 0 {
			vc.errorf("assigns of %s: cannot parse %q", cname, a)
			return h
		}
		e, err := parseExpr(a[:k])
		if err != nil {
			vc.errorf("assigns of %s: %v", cname, err)
			return h
		}
		tv, err := env.Compile(e)
		if err != nil || tv.T == nil {
			vc.errorf("assigns of %s: %q: %v", cname, a, err)
			return h
		}
		pt, ok := types.Unalias(tv.Ty).Underlying().(*types.Pointer)
		if !ok {
			vc.errorf("assigns of %s: %q is not a pointer", cname, a[:k])
			return h
		}
		stt, ok := w.repoStruct(pt.Elem())
		if !ok {
			vc.errorf("assigns of %s: %q does not point to a repo struct", cname, a[:k])
			return h
		}
		field := a[k+1:]
		var keys []string
		var collect func(prefix string, s *types.Struct, only string)
		collect = func(prefix string, s *types.Struct, only string) {
			for i := 0; i < s.NumFields(); i++ {
				f := s.Field(i)
				if only != "*" && f.Name() != only {
					continue
				}
				if sub, ok := w.repoStruct(f.Type()); ok {
					collect(prefix+"."+f.Name(), sub, "*")
				} else {
					keys = append(keys, w.fieldHeapP(prefix, s, i))
				}
			}
		}
		collect(structPrefix(pt.Elem()), stt, field)
		if len(keys) == 0 {
			vc.errorf("assigns of %s: no field %q", cname, field)
		}
		g := And(derefGuard(env, e), Not(Eq(tv.T, IntLit(0))))
		for _, key := range keys {
			if !fr.isDiscovery {
				fr.frameCheckCond(key, tv.T, g, st, x)
			}
			_, vs, _ := w.heapSort[key].ArrParts()
			h = h.set(key, Ite(g, Store(h.get(key), tv.T, vc.fresh("Hc!"+key, vs)), h.get(key)))
		}
		return h
	}
}

// ---------------------------------------------------------------- interface method calls

func (fr *frame) invoke(x ssa.Instruction, c *ssa.CallCommon, recv *Val, args []*Val, st *State, name string) *Val {
	it := c.Value.Type()
	key := ""
	cname := ""
	if n, ok := types.Unalias(it).(*types.Named); ok && n.Obj().Pkg() != nil {
		if strings.HasPrefix(n.Obj().Pkg().Path(), modPath) {
			key = n.Obj().Pkg().Path() + "::" + n.Obj().Name() + "." + c.Method.Name()
		} else {
			key = "::" + n.Obj().Pkg().Path() + "." + n.Obj().Name() + "." + c.Method.Name()
		}
		cname = shortPath(n.Obj().Pkg().Path()) + "." + n.Obj().Name() + "." + c.Method.Name()
	} else {
		key = "::" + typeStr(it) + "." + c.Method.Name()
		cname = typeStr(it) + "." + c.Method.Name()
	}
	if !fr.isDiscovery {
		ok := Not(Eq(IfTag(recv.T), IntLit(0)))
		if _, in := fr.w.isRepoNamed(it); in {
			// implementations of repo interfaces are pointer types whose methods
			// assume a non-nil receiver (thin default contract)
			ok = And(ok, Not(Eq(IfRef(recv.T), IntLit(0))))
		}
		fr.safety("nil", x, st, ok)
	}
	fc, ok := fr.w.cons.Funcs[key]
	if !ok {
		return fr.havocCall(x, c.Signature(), "interface call "+cname, st, name)
	}
	sig := c.Signature()
	pn := []string{"recv"}
	for i := 0; i < sig.Params().Len(); i++ {
		pn = append(pn, sig.Params().At(i).Name())
	}
	if fc.Extern {
		pn = nil
	}
	return fr.applyContract(x, sig, fc, pn, cname, append([]*Val{recv}, args...), st, name)
}

// ---------------------------------------------------------------- builtins

func (fr *frame) builtin(x ssa.Instruction, b *ssa.Builtin, c *ssa.CallCommon, args []*Val, st *State, name string) *Val {
	intT := types.Typ[types.Int]
	switch b.Name() {
	case "len":
		switch args[0].T.Sort {
		case SStr:
			return &Val{T: StrLen(args[0].T), Ty: intT}
		case SSlice:
			return &Val{T: SlLen(args[0].T), Ty: intT}
		}
		if _, ok := types.Unalias(c.Args[0].Type()).Underlying().(*types.Map); ok {
			fr.vc.declareFun("maplen", []Sort{SInt}, SInt)
			t := App("maplen", SInt, args[0].T)
			fr.vc.assume(True, Ge(t, IntLit(0)))
			return &Val{T: t, Ty: intT}
		}
	case "cap":
		if args[0].T.Sort == SSlice {
			return &Val{T: SlCap(args[0].T), Ty: intT}
		}
	case "append":
		return fr.appendBuiltin(x, c, args, st, name)
	case "copy":
		return fr.havocCall(x, c.Signature(), "builtin copy", st, name)
	case "delete":
		m := args[0]
		u := types.Unalias(c.Args[0].Type()).Underlying().(*types.Map)
		_, mh := fr.w.mapHeaps(u)
		k := fr.mapKey(args[1])
		h := st.heap
		fr.frameCheck(mh, m.T, nil, st, x)
		st.heap = h.set(mh, Store(h.get(mh), m.T, Store(Select(h.get(mh), m.T), k, False)))
		return &Val{Ty: c.Signature().Results()}
	case "min", "max":
		if len(args) == 2 && args[0].T.Sort == SInt {
			return &Val{T: App(b.Name(), SInt, args[0].T, args[1].T), Ty: intT}
		}
	case "print", "println":
		return &Val{Ty: c.Signature().Results()}
	}
	fr.fail(x.Pos(), "builtin %s on these operands is unsupported", b.Name())
	return nil
}

// appendBuiltin models append(s, t...) exactly, including in-place growth.
func (fr *frame) appendBuiltin(x ssa.Instruction, c *ssa.CallCommon, args []*Val, st *State, name string) *Val {
	vc := fr.vc
	s, t := args[0], args[1]
	st0 := c.Args[0].Type()
	sl, ok := types.Unalias(st0).Underlying().(*types.Slice)
	if !ok {
		fr.fail(x.Pos(), "append to %s", st0)
	}
	key := fr.w.elemHeap(sl.Elem())
	_ = sl
	h := st.heap
	E := h.get(key)
	var n *Term
	var srcAt func(k *Term) *Term
	if t.T.Sort == SStr {
		// append([]byte, string...)
		n = StrLen(t.T)
		srcAt = func(k *Term) *Term { return App("bytes", BV(8), StrArr(t.T), Idx(StrOff(t.T), k)) }
	} else {
		n = SlLen(t.T)
		srcAt = func(k *Term) *Term { return Select(Select(E, SlArr(t.T)), Idx(SlOff(t.T), k)) }
	}
	ln, cp := SlLen(s.T), SlCap(s.T)
	newLen := Add(ln, n)
	fits := vc.define(name+"!fits", Le(newLen, cp))
	if !fr.isDiscovery {
		fr.safety("overflow", x, st, Le(newLen, maxIntT))
	}
	zeroN := Eq(n, IntLit(0))
	if !fr.isDiscovery {
		// an in-place write must respect the frame
		fr.frameCheckCond(key, SlArr(s.T), And(fits, Not(zeroN)), st, x)
	}
	// Axiomatic characterisation: r and E' are fresh, constrained by facts.
	arr := fr.newArr(name+"!arr", st)
	h = st.heap
	r := vc.fresh(name, SSlice)
	E2 := vc.fresh(name+"!E", fr.w.heapSort[key])
	g := st.reach
	vc.assume(True, vc.wfTerm(r, st0, nil, nil))
	vc.assume(g, Eq(SlLen(r), newLen))
	vc.assume(g, Implies(zeroN, And(Eq(r, s.T), Eq(E2, E))))
	nz := Not(zeroN)
	vc.assume(g, Implies(And(nz, fits), And(Eq(SlArr(r), SlArr(s.T)), Eq(SlOff(r), SlOff(s.T)), Eq(SlCap(r), cp))))
	vc.assume(g, Implies(And(nz, Not(fits)), And(Eq(SlArr(r), arr), Eq(SlOff(r), IntLit(0)))))
	relem := func(k *Term) *Term { return Select(Select(E2, SlArr(r)), Idx(SlOff(r), k)) }
	{
		k := Sym(freshBinder("k"), SInt)
		vc.assume(g, Forall([]Binder{{k.Op, SInt}}, Implies(And(Le(IntLit(0), k), Lt(k, ln)),
			Eq(relem(k), Select(Select(E, SlArr(s.T)), Idx(SlOff(s.T), k)))), []*Term{relem(k)}))
	}
	if nv, isLit := n.IntVal(); isLit && nv <= 4 {
		for k := int64(0); k < nv; k++ {
			vc.assume(g, Eq(relem(Add(ln, IntLit(k))), srcAt(IntLit(k))))
		}
	} else {
		k := Sym(freshBinder("k"), SInt)
		vc.assume(g, Forall([]Binder{{k.Op, SInt}}, Implies(And(Le(IntLit(0), k), Lt(k, n)),
			Eq(relem(Add(ln, k)), srcAt(k))), []*Term{srcAt(k)}))
		j := Sym(freshBinder("j"), SInt)
		vc.assume(g, Forall([]Binder{{j.Op, SInt}}, Implies(And(Le(ln, j), Lt(j, newLen)),
			Eq(relem(j), srcAt(Sub(j, ln)))), []*Term{relem(j)}))
	}
	{
		a := Sym(freshBinder("a"), SInt)
		vc.assume(g, Forall([]Binder{{a.Op, SInt}}, Implies(Not(Eq(a, SlArr(r))), Eq(Select(E2, a), Select(E, a))), []*Term{Select(E2, a)}))
		j := Sym(freshBinder("j"), SInt)
		lo, hi := Idx(SlOff(s.T), ln), Idx(SlOff(s.T), newLen)
		cur := Select(Select(E2, SlArr(s.T)), j)
		vc.assume(g, Implies(And(nz, fits), Forall([]Binder{{j.Op, SInt}}, Implies(Or(Lt(j, lo), Ge(j, hi)),
			Eq(cur, Select(Select(E, SlArr(s.T)), j))), []*Term{cur})))
	}
	vc.noteSucc(key, E2, E)
	// prefix equality as a named fact (used by the fold congruences)
	pe := vc.prefEq(key)
	vc.assume(g, App(pe, SBool, E2, r, E, s.T, ln))
	st.heap = h.set(key, E2)
	return &Val{T: r, Ty: st0}
}

// ---------------------------------------------------------------- frames

// frameCheck: a write to (key, ref) must be permitted by the assigns clause
// of the function under verification (or hit memory allocated since entry).
func (fr *frame) frameCheck(key string, ref, idx *Term, st *State, at ssa.Instruction) {
	fr.frameCheckCond(key, ref, True, st, at)
}

func (fr *frame) frameCheckCond(key string, ref *Term, cond *Term, st *State, at ssa.Instruction) {
	if fr.isDiscovery || fr.assignsOK == nil {
		return
	}
	if strings.HasPrefix(key, "I:") || strings.HasPrefix(key, "L:") || strings.HasPrefix(key, "LK") || key == alKey || key == alAKey {
		return
	}
	ok := fr.assignsOK(key, ref, st)
	name := fmt.Sprintf("frame/%s/%s", fr.topName(), key)
	fr.vc.oblige("frame", name, fr.topProps(), And(st.reach, cond), ok, fr.pos(at.Pos()))
	// positional frames: a write that happens after loop N has finished must also respect `loop N then-assigns`
	if fr.parent == nil && at != nil && at.Block() != nil {
		for _, li := range fr.loopOrd {
			aok, has := fr.afterOK[li.ordinal]
			if !has || li.blocks[at.Block()] || !li.header.Dominates(at.Block()) {
				continue
			}
			fr.vc.oblige("frame", fmt.Sprintf("frame/%s/after-loop-%d:%s", fr.topName(), li.ordinal, key), fr.topProps(), And(st.reach, cond), aok(key, ref, st), fr.pos(at.Pos()))
		}
	}
}

func (fr *frame) frameCheckAll(st *State, at ssa.Instruction, what string) {
	if fr.isDiscovery || fr.assignsOK == nil {
		return
	}
	ok := fr.assignsOK("*", nil, st)
	fr.vc.oblige("frame", fmt.Sprintf("frame/%s/unknown-effects", fr.topName()), fr.topProps(), st.reach, ok, fr.pos(at.Pos()))
}

func (fr *frame) topName() string {
	f := fr
	for f.parent != nil {
		f = f.parent
	}
	return relName(f.fn)
}

func (fr *frame) topProps() []string {
	f := fr
	for f.parent != nil {
		f = f.parent
	}
	return f.props()
}

// ---------------------------------------------------------------- defers

func (fr *frame) runDefers(st *State, at ssa.Instruction) {
	for i := len(st.defers) - 1; i >= 0; i-- {
		d := st.defers[i]
		sub := &State{reach: And(st.reach, d.guard), heap: st.heap}
		if sub.reach.Op == "false" {
			continue
		}
		c := d.call
		name := fmt.Sprintf("%sdefer%d", fr.prefix, i)
		if c.IsInvoke() {
			fr.invoke(d.instr, c, d.fnv, d.args, sub, name)
		} else if b, ok := c.Value.(*ssa.Builtin); ok {
			fr.builtin(d.instr, b, c, d.args, sub, name)
		} else {
			switch {
			case d.fnv != nil && d.fnv.Fn != nil:
				fr.callFunc(d.instr, d.fnv.Fn, d.args, nil, sub, name)
			case d.fnv != nil && d.fnv.Clo != nil:
				var free []*Val
				for _, b := range d.fnv.Clo.Bindings {
					free = append(free, fr.get(b))
				}
				fr.callFunc(d.instr, d.fnv.Clo.Fn.(*ssa.Function), d.args, free, sub, name)
			default:
				fr.havocCall(d.instr, c.Signature(), "deferred dynamic call", sub, name)
			}
		}
		if sub.heap != st.heap {
			if termEq(sub.reach, st.reach) {
				st.heap = sub.heap
			} else {
				st.heap = mergeHeaps(fr.vc, name+"!H", []*Term{d.guard, True}, []*Heap{sub.heap, st.heap})
			}
		}
	}
}

// autoInlinable: small loop-free repo functions without a contract are
// inlined rather than havocked.
func autoInlinable(fn *ssa.Function, depth int) bool {
	if depth > 2 || len(fn.Blocks) == 0 || len(fn.Blocks) > 24 {
		return false
	}
	n := 0
	for _, b := range fn.Blocks {
		for _, s := range b.Succs {
			if backEdge(b, s) {
				return false
			}
		}
		for _, ins := range b.Instrs {
			n++
			switch c := ins.(type) {
			case *ssa.Go, *ssa.Select, *ssa.Send, *ssa.Defer:
				return false
			case *ssa.Call:
				if c.Call.IsInvoke() {
					return false
				}
				if callee, ok := c.Call.Value.(*ssa.Function); ok {
					if callee == fn {
						return false
					}
				}
			}
		}
	}
	return n <= 100
}

// closurePred: the predicate denoted by a closure whose contract has the
// form `ensures result == e`; free variables are bound to the captured values.
func (fr *frame) closurePred(fn *ssa.Function, bindings []ssa.Value, h *Heap) func(env *Env, args []TV) (TV, error) {
	fc := fr.w.contractFor(fn)
	return func(env *Env, args []TV) (TV, error) {
		if fc == nil {
			return TV{}, fmt.Errorf("closure %s has no contract", relName(fn))
		}
		var body Expr
		for _, cl := range fc.Ensures {
			if b, ok := cl.E.(EBin); ok && b.Op == "==" {
				if id, ok := b.L.(EIdent); ok && (id.Name == "result" || (fn.Signature.Results().Len() == 1 && id.Name == fn.Signature.Results().At(0).Name())) {
					body = b.R
				}
			}
		}
		if body == nil {
			return TV{}, fmt.Errorf("contract of closure %s has no clause `ensures result == e`", relName(fn))
		}
		sub := &Env{w: fr.w, pkg: fc.Pkg, vars: map[string]TV{}, used: fr.vc.used, heap: env.heap, old: env.old, inOld: env.inOld}
		if len(args) != len(fn.Params) {
			return TV{}, fmt.Errorf("closure %s takes %d arguments", relName(fn), len(fn.Params))
		}
		for i, p := range fn.Params {
			sub.vars[p.Name()] = args[i]
		}
		for i, fv := range fn.FreeVars {
			b := fr.get(bindings[i])
			// captured variables are pointers to cells (or private locals)
			if b.Loc != nil {
				sub.vars[fv.Name()] = valTV(fr.loadLoc(b.Loc, &State{reach: True, heap: h}, nil))
				continue
			}
			if pt, ok := types.Unalias(fv.Type()).Underlying().(*types.Pointer); ok && b.T != nil {
				if _, isSt := fr.w.repoStruct(pt.Elem()); !isSt && fr.w.sortOf(pt.Elem()) != "" {
					key := fr.w.cellHeap(pt.Elem())
					sub.vars[fv.Name()] = TV{T: Select(h.get(key), b.T), Ty: pt.Elem()}
					continue
				}
			}
			sub.vars[fv.Name()] = valTV(b)
		}
		return sub.Compile(body)
	}
}
