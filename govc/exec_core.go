package main

// Symbolic execution of SSA functions: frames, values, block DAG, loops.

import (
	"fmt"
	"go/token"
	"go/types"
	"sort"
	"strings"

	"golang.org/x/tools/go/ssa"
)

// Val is the symbolic value of an SSA value.
type Val struct {
	T   *Term
	Fs  []*Val // struct or tuple components
	Loc *Loc   // address that is not a first-class term
	Ty  types.Type
	Fn  *ssa.Function     // function value
	Clo *ssa.MakeClosure  // closure value
	It  *rangeIter        // range iterator
}

const (
	LField  = iota // scalar field: heap key Key at Ref
	LStruct        // struct nested by value: fields under Prefix at Ref
	LElem          // slice/array element: heap key Key at [Ref][Idx]
	LCell          // cell: heap key Key at Ref
	LGlobal        // global scalar: heap key Key
)

type Loc struct {
	Kind   int
	Ref    *Term
	Idx    *Term
	Key    string
	Prefix string
	St     *types.Struct
	Ty     types.Type // type stored at the location
}

type rangeIter struct {
	key  string // heap key of the position
	x    *Val
	isStr bool
}

type State struct {
	reach  *Term
	heap   *Heap
	defers []*deferred
}

type deferred struct {
	guard *Term
	call  *ssa.CallCommon
	args  []*Val
	fnv   *Val
	instr ssa.Instruction
}

type loopInfo struct {
	header  *ssa.BasicBlock
	ordinal int
	blocks  map[*ssa.BasicBlock]bool
	mod     []string // heap keys modified in the loop (from the discovery pass)
	modAll  bool
	stamp   int
	preHeap *Heap
}

type retInfo struct {
	reach *Term
	vals  []*Val
	st    *State
}

type frame struct {
	vc      *VC
	w       *World
	fn      *ssa.Function
	fc      *FuncContract
	vals    map[ssa.Value]*Val
	prefix  string
	lastResolvedAlloc *ssa.Alloc // set by resolveLocal when the name is an escaping scalar cell
	afterOK map[int]func(string, *Term, *State) *Term // loop N then-assigns
	entry   *Heap
	out     map[*ssa.BasicBlock]*State
	edge    map[[2]*ssa.BasicBlock]*Term
	loops   map[*ssa.BasicBlock]*loopInfo
	loopOrd []*loopInfo
	rets    []retInfo
	depth   int
	top     bool
	params  []*Val
	discover map[*ssa.BasicBlock]*loopInfo // results of the discovery pass (nil in the discovery pass itself)
	isDiscovery bool
	assignsOK func(key string, ref *Term, st *State) *Term // frame condition of the top function
	callCount map[string]int
	parent  *frame
	hdrHeaps map[*ssa.BasicBlock]*Heap
}

const alKey = "$alloc"
const alAKey = "$allocA"

func (w *World) regAllocKeys() {
	w.regHeap(alKey, ArrSort(SInt, SBool), nil)
	w.regHeap(alAKey, ArrSort(SInt, SBool), nil)
	w.regHeap(alKey+"@entry", ArrSort(SInt, SBool), nil)
	w.regHeap(alAKey+"@entry", ArrSort(SInt, SBool), nil)
	// ghost integer cells (positions of readers and the like): only contracts read and write them
	w.regHeap("GH:int", ArrSort(SInt, SInt), nil)
}

func relName(fn *ssa.Function) string {
	if fn.Pkg != nil {
		return shortPath(fn.Pkg.Pkg.Path()) + "." + fn.RelString(fn.Pkg.Pkg)
	}
	if p := fn.Parent(); p != nil {
		return relName(p) + "$" + fn.Name()
	}
	return fn.String()
}

func (fr *frame) pos(p token.Pos) string {
	if !p.IsValid() {
		return ""
	}
	ps := fr.w.fset.Position(p)
	f := ps.Filename
	if strings.HasPrefix(f, fr.w.repo+"/") {
		f = f[len(fr.w.repo)+1:]
	}
	return fmt.Sprintf("%s:%d", f, ps.Line)
}

// ---------------------------------------------------------------- loops

func backEdge(u, h *ssa.BasicBlock) bool { return h.Dominates(u) }

func (fr *frame) findLoops() {
	fr.loops = map[*ssa.BasicBlock]*loopInfo{}
	for _, b := range fr.fn.Blocks {
		for _, s := range b.Succs {
			if backEdge(b, s) {
				li := fr.loops[s]
				if li == nil {
					li = &loopInfo{header: s, blocks: map[*ssa.BasicBlock]bool{s: true}}
					fr.loops[s] = li
				}
				// natural loop: blocks reaching b without passing s
				var stack []*ssa.BasicBlock
				if !li.blocks[b] {
					li.blocks[b] = true
					stack = append(stack, b)
				}
				for len(stack) > 0 {
					x := stack[len(stack)-1]
					stack = stack[:len(stack)-1]
					for _, p := range x.Preds {
						if !li.blocks[p] {
							li.blocks[p] = true
							stack = append(stack, p)
						}
					}
				}
			}
		}
	}
	for _, li := range fr.loops {
		fr.loopOrd = append(fr.loopOrd, li)
	}
	sort.Slice(fr.loopOrd, func(i, j int) bool { return fr.loopOrd[i].header.Index < fr.loopOrd[j].header.Index })
	for i, li := range fr.loopOrd {
		li.ordinal = i + 1
	}
}

// topoOrder: reverse postorder ignoring back-edges.
func (fr *frame) topoOrder() []*ssa.BasicBlock {
	seen := map[*ssa.BasicBlock]bool{}
	var post []*ssa.BasicBlock
	var dfs func(b *ssa.BasicBlock)
	dfs = func(b *ssa.BasicBlock) {
		seen[b] = true
		// visit successors in reverse so that, in reverse postorder, loop bodies
		// come before the code after the loop
		for i := len(b.Succs) - 1; i >= 0; i-- {
			s := b.Succs[i]
			if !seen[s] && !backEdge(b, s) {
				dfs(s)
			}
		}
		post = append(post, b)
	}
	if len(fr.fn.Blocks) > 0 {
		dfs(fr.fn.Blocks[0])
	}
	for i, j := 0, len(post)-1; i < j; i, j = i+1, j-1 {
		post[i], post[j] = post[j], post[i]
	}
	// Kahn-style check is unnecessary: RPO on the acyclic graph is a topological order.
	return post
}

// ---------------------------------------------------------------- values

func (fr *frame) sym(v ssa.Value) string {
	return fr.prefix + v.Name()
}

func (fr *frame) get(v ssa.Value) *Val {
	if x, ok := fr.vals[v]; ok {
		return x
	}
	switch c := v.(type) {
	case *ssa.Const:
		return fr.constVal(c)
	case *ssa.Global:
		t := c.Type().(*types.Pointer).Elem()
		if _, ok := fr.w.repoStruct(t); ok {
			fr.fail(v.Pos(), "struct-valued global %s", c.Name())
		}
		return &Val{Loc: &Loc{Kind: LGlobal, Key: fr.w.globalHeap(c), Ty: t}, Ty: c.Type()}
	case *ssa.Function:
		return &Val{Fn: c, Ty: c.Type()}
	case *ssa.Builtin:
		return &Val{Ty: c.Type()}
	}
	fr.fail(v.Pos(), "value %s (%T) used before definition", v.Name(), v)
	return nil
}

type execErr struct{ msg string }

func (fr *frame) fail(p token.Pos, f string, a ...any) {
	panic(execErr{fmt.Sprintf("%s: %s: %s", relName(fr.fn), fr.pos(p), fmt.Sprintf(f, a...))})
}

func (fr *frame) constVal(c *ssa.Const) *Val {
	t := c.Type()
	if c.Value == nil {
		// zero value / nil
		return fr.zeroVal(t)
	}
	return &Val{T: fr.w.constTerm(c.Value, t), Ty: t}
}

func (fr *frame) zeroVal(t types.Type) *Val {
	if st, ok := fr.w.repoStruct(t); ok {
		v := &Val{Ty: t}
		for i := 0; i < st.NumFields(); i++ {
			v.Fs = append(v.Fs, fr.zeroVal(st.Field(i).Type()))
		}
		return v
	}
	if tup, ok := t.(*types.Tuple); ok {
		v := &Val{Ty: t}
		for i := 0; i < tup.Len(); i++ {
			v.Fs = append(v.Fs, fr.zeroVal(tup.At(i).Type()))
		}
		return v
	}
	return &Val{T: fr.w.zero(t), Ty: t}
}

// freshVal creates an unconstrained value of type t (with well-formedness facts).
func (fr *frame) freshVal(base string, t types.Type, st *State) *Val {
	if s, ok := fr.w.repoStruct(t); ok {
		v := &Val{Ty: t}
		for i := 0; i < s.NumFields(); i++ {
			v.Fs = append(v.Fs, fr.freshVal(base+"."+s.Field(i).Name(), s.Field(i).Type(), st))
		}
		return v
	}
	if tup, ok := t.(*types.Tuple); ok {
		v := &Val{Ty: t}
		for i := 0; i < tup.Len(); i++ {
			v.Fs = append(v.Fs, fr.freshVal(fmt.Sprintf("%s.%d", base, i), tup.At(i).Type(), st))
		}
		return v
	}
	tm := fr.vc.fresh(base, fr.w.sortOf(t))
	v := &Val{T: tm, Ty: t}
	fr.assumeWF(v, st)
	return v
}

func (fr *frame) assumeWF(v *Val, st *State) {
	if v.T == nil {
		for _, f := range v.Fs {
			fr.assumeWF(f, st)
		}
		return
	}
	var al, alA *Term
	if st != nil {
		al, alA = st.heap.get(alKey), st.heap.get(alAKey)
	}
	fr.vc.assume(True, fr.vc.wfTerm(v.T, v.Ty, al, alA))
}

// name gives the scalar value a named constant so that terms stay small.
func (fr *frame) named(v ssa.Value, val *Val) *Val {
	if val.T != nil {
		switch val.T.Op {
		case "mkslice", "mkstr", "mkiface":
			// keep constructors visible so that selectors fold
		default:
			val.T = fr.vc.define(fr.sym(v), val.T)
		}
	}
	return val
}

func iteVal(c *Term, a, b *Val) *Val {
	if a == b {
		return a
	}
	if a.T != nil && b.T != nil {
		return &Val{T: Ite(c, a.T, b.T), Ty: a.Ty}
	}
	if a.Fs != nil && b.Fs != nil && len(a.Fs) == len(b.Fs) {
		r := &Val{Ty: a.Ty}
		for i := range a.Fs {
			r.Fs = append(r.Fs, iteVal(c, a.Fs[i], b.Fs[i]))
		}
		return r
	}
	if a.Fn != nil && a.Fn == b.Fn {
		return a
	}
	if a.Loc != nil && b.Loc != nil && a.Loc.Kind == b.Loc.Kind && a.Loc.Key == b.Loc.Key && a.Loc.Prefix == b.Loc.Prefix {
		l := *a.Loc
		if a.Loc.Ref != nil {
			l.Ref = Ite(c, a.Loc.Ref, b.Loc.Ref)
		}
		if a.Loc.Idx != nil {
			l.Idx = Ite(c, a.Loc.Idx, b.Loc.Idx)
		}
		return &Val{Loc: &l, Ty: a.Ty}
	}
	panic(execErr{"cannot merge values of different shapes at a join"})
}

// ---------------------------------------------------------------- running a function body

// run executes the body of fr.fn from state st0 with the given arguments and
// returns the merged return value(s) and state.
func (fr *frame) run(st0 *State, args []*Val, free []*Val) (*Val, *State) {
	fn := fr.fn
	if len(fn.Blocks) == 0 {
		fr.fail(fn.Pos(), "function has no body")
	}
	fr.vals = map[ssa.Value]*Val{}
	fr.out = map[*ssa.BasicBlock]*State{}
	fr.edge = map[[2]*ssa.BasicBlock]*Term{}
	for i, p := range fn.Params {
		fr.vals[p] = args[i]
	}
	for i, fv := range fn.FreeVars {
		fr.vals[fv] = free[i]
	}
	fr.params = args
	fr.findLoops()
	order := fr.topoOrder()
	for _, b := range order {
		fr.execBlock(b, st0)
	}
	// merge returns
	if len(fr.rets) == 0 {
		return nil, &State{reach: False, heap: st0.heap}
	}
	var conds []*Term
	var heaps []*Heap
	for _, r := range fr.rets {
		conds = append(conds, r.reach)
		heaps = append(heaps, r.st.heap)
	}
	reach := fr.vc.define(fr.prefix+"reach!ret", Or(conds...))
	heap := mergeHeaps(fr.vc, fr.prefix+"Hret", conds, heaps)
	var res *Val
	nres := fn.Signature.Results().Len()
	if nres > 0 {
		comps := make([]*Val, nres)
		for k := 0; k < nres; k++ {
			v := fr.rets[len(fr.rets)-1].vals[k]
			for i := len(fr.rets) - 2; i >= 0; i-- {
				v = iteVal(fr.rets[i].reach, fr.rets[i].vals[k], v)
			}
			if v.T != nil {
				v = &Val{T: fr.vc.define(fmt.Sprintf("%sresult!%d", fr.prefix, k), v.T), Ty: v.Ty}
			}
			comps[k] = v
		}
		if nres == 1 {
			res = comps[0]
		} else {
			res = &Val{Fs: comps, Ty: fn.Signature.Results()}
		}
	}
	return res, &State{reach: reach, heap: heap}
}

func (fr *frame) execBlock(b *ssa.BasicBlock, st0 *State) {
	vc := fr.vc
	var st *State
	var inConds []*Term
	var inPreds []*ssa.BasicBlock
	if b.Index == 0 {
		st = &State{reach: st0.reach, heap: st0.heap, defers: st0.defers}
	} else {
		var heaps []*Heap
		var defs [][]*deferred
		for _, p := range b.Preds {
			if backEdge(p, b) {
				continue
			}
			c, ok := fr.edge[[2]*ssa.BasicBlock{p, b}]
			if !ok || c.Op == "false" {
				continue
			}
			inConds = append(inConds, c)
			inPreds = append(inPreds, p)
			heaps = append(heaps, fr.out[p].heap)
			defs = append(defs, fr.out[p].defers)
		}
		if len(inConds) == 0 {
			fr.out[b] = &State{reach: False, heap: st0.heap}
			// still bind phis/instrs to nothing: unreachable
			for _, s := range b.Succs {
				fr.edge[[2]*ssa.BasicBlock{b, s}] = False
			}
			return
		}
		reach := vc.define(fmt.Sprintf("%sreach!%d", fr.prefix, b.Index), Or(inConds...))
		st = &State{reach: reach, heap: mergeHeaps(vc, fmt.Sprintf("%sH@%d", fr.prefix, b.Index), inConds, heaps)}
		// defers: union (guards are already conditions)
		seen := map[*deferred]bool{}
		for _, ds := range defs {
			for _, d := range ds {
				if !seen[d] {
					seen[d] = true
					st.defers = append(st.defers, d)
				}
			}
		}
	}
	li := fr.loops[b]
	// phis
	phiIn := func(phi *ssa.Phi) *Val {
		var v *Val
		for i := len(inPreds) - 1; i >= 0; i-- {
			// find the edge index of inPreds[i] in b.Preds
			var ev *Val
			for k, p := range b.Preds {
				if p == inPreds[i] {
					ev = fr.get(phi.Edges[k])
				}
			}
			if v == nil {
				v = ev
			} else {
				v = iteVal(inConds[i], ev, v)
			}
		}
		return v
	}
	if li != nil {
		fr.enterLoop(b, li, st, phiIn)
	} else {
		for _, ins := range b.Instrs {
			phi, ok := ins.(*ssa.Phi)
			if !ok {
				break
			}
			fr.vals[phi] = fr.named(phi, phiIn(phi))
		}
	}
	for _, ins := range b.Instrs {
		if _, ok := ins.(*ssa.Phi); ok {
			continue
		}
		fr.execInstr(ins, st)
	}
	fr.out[b] = st
	// out-edges
	switch t := b.Instrs[len(b.Instrs)-1].(type) {
	case *ssa.If:
		c := fr.get(t.Cond).T
		fr.setEdge(b, b.Succs[0], And(st.reach, c), st)
		fr.setEdge(b, b.Succs[1], And(st.reach, Not(c)), st)
	case *ssa.Jump:
		fr.setEdge(b, b.Succs[0], st.reach, st)
	}
}

func (fr *frame) setEdge(b, s *ssa.BasicBlock, c *Term, st *State) {
	if b.Succs[0] == b.Succs[1%len(b.Succs)] && len(b.Succs) == 2 {
		c = st.reach
	}
	if backEdge(b, s) {
		fr.backEdge(b, s, c, st)
		return
	}
	fr.edge[[2]*ssa.BasicBlock{b, s}] = c
}

// ---------------------------------------------------------------- loop headers

// loopEnv builds the contract environment at a loop header.
func (fr *frame) loopEnv(b *ssa.BasicBlock, st *State, phiVals map[*ssa.Phi]*Val) *Env {
	env := fr.contractEnv(st.heap)
	base := env.lookup
	// a source variable that shadows / reassigns a parameter refers to its
	// current value inside the loop; the entry value is old(name)
	for _, p := range fr.fn.Params {
		if v, ok := fr.resolveLocal(p.Name(), b); ok {
			if pv, isP := fr.vals[p]; !isP || pv != v {
				delete(env.vars, p.Name())
			}
		}
		for _, ins := range b.Instrs {
			if phi, ok := ins.(*ssa.Phi); ok && phi.Comment == p.Name() {
				delete(env.vars, p.Name())
			}
		}
	}
	env.lookup = func(name string) (TV, bool) {
		for _, ins := range b.Instrs {
			phi, ok := ins.(*ssa.Phi)
			if !ok {
				break
			}
			cm := phi.Comment
			if cm == name || (name == "ri" && cm == "rangeindex") {
				if v, ok := phiVals[phi]; ok {
					return valTV(v), true
				}
			}
		}
		// riN: the range index of (enclosing) loop N, e.g. ri1 inside loop 2
		if strings.HasPrefix(name, "ri") && len(name) > 2 {
			var n int
			if _, err := fmt.Sscanf(name[2:], "%d", &n); err == nil {
				for _, li := range fr.loopOrd {
					if li.ordinal != n || !li.header.Dominates(b) {
						continue
					}
					for _, ins := range li.header.Instrs {
						phi, ok := ins.(*ssa.Phi)
						if !ok {
							break
						}
						if phi.Comment == "rangeindex" {
							if v, ok := fr.vals[phi]; ok {
								return valTV(v), true
							}
						}
					}
				}
			}
		}
		if v, ok := fr.resolveLocal(name, b); ok {
			if v.Loc != nil && v.Loc.Kind == LGlobal {
				// a private local cell: its current content
				return valTV(fr.loadLoc(v.Loc, st, nil)), true
			}
			if v.Loc == nil && v.T != nil && fr.lastResolvedAlloc != nil {
				// an escaping scalar local (its address was passed on): the
				// name denotes the current content of its cell
				pt := fr.lastResolvedAlloc.Type().(*types.Pointer)
				return TV{T: Select(st.heap.get(fr.w.cellHeap(pt.Elem())), v.T), Ty: pt.Elem()}, true
			}
			if v.Loc != nil {
				return TV{}, false
			}
			return valTV(v), true
		}
		if base != nil {
			return base(name)
		}
		return TV{}, false
	}
	return env
}

func valTV(v *Val) TV {
	if v.T != nil {
		return TV{T: v.T, Ty: v.Ty}
	}
	tv := TV{Ty: v.Ty}
	for _, f := range v.Fs {
		tv.Fs = append(tv.Fs, valTV(f))
	}
	if tv.Fs == nil {
		tv.Fs = []TV{}
	}
	return tv
}

// resolveLocal finds the SSA value that source variable `name` has at the
// start of block at: the closest dominating phi or debug reference.
func (fr *frame) resolveLocal(name string, at *ssa.BasicBlock) (*Val, bool) {
	var best ssa.Value
	bestDepth, bestIdx := -1, -1
	depth := func(b *ssa.BasicBlock) int {
		d := 0
		for x := b; x != nil; x = x.Idom() {
			d++
		}
		return d
	}
	for _, b := range fr.fn.Blocks {
		if !(b.Dominates(at)) {
			continue
		}
		d := depth(b)
		for i, ins := range b.Instrs {
			var cand ssa.Value
			switch x := ins.(type) {
			case *ssa.Phi:
				if x.Comment == name {
					cand = x
				}
			case *ssa.DebugRef:
				if id, ok := x.Expr.(interface{ String() string }); ok {
					if id.String() == name {
						if !x.IsAddr {
							cand = x.X
						} else if al, isAlloc := x.X.(*ssa.Alloc); isAlloc {
							// address-taken struct local: the name denotes the object;
							// private scalar cell: the name denotes its content
							if pt, ok := x.X.Type().(*types.Pointer); ok {
								if _, isSt := types.Unalias(pt.Elem()).Underlying().(*types.Struct); isSt {
									cand = x.X
								} else if !allocEscapes(al) || fr.w.sortOf(pt.Elem()) != "" {
									// (an escaping scalar cell lives in the C: heap; see loopEnv)
									cand = x.X
								}
							}
						}
					}
				}
			}
			if cand == nil {
				continue
			}
			if b == at {
				// only phis of the block itself count (state at block start)
				if _, isPhi := ins.(*ssa.Phi); !isPhi {
					continue
				}
			}
			if al, ok := cand.(*ssa.Alloc); ok && allocEscapes(al) {
				if pt, ok := al.Type().(*types.Pointer); ok && fr.w.sortOf(pt.Elem()) != "" {
					if _, have := fr.vals[cand]; have {
						// the cell of an escaping scalar local always wins over values loaded from it earlier
						best, bestDepth, bestIdx = cand, 1<<30, i
						continue
					}
				}
			}
			if d > bestDepth || (d == bestDepth && i > bestIdx) {
				if _, ok := fr.vals[cand]; ok || isConstOrParam(cand) {
					best, bestDepth, bestIdx = cand, d, i
				}
			}
		}
	}
	if best == nil {
		return nil, false
	}
	fr.lastResolvedAlloc = nil
	if al, ok := best.(*ssa.Alloc); ok {
		if pt, ok := al.Type().(*types.Pointer); ok && fr.w.sortOf(pt.Elem()) != "" && allocEscapes(al) {
			if _, isSt := types.Unalias(pt.Elem()).Underlying().(*types.Struct); !isSt {
				fr.lastResolvedAlloc = al
			}
		}
	}
	return fr.get(best), true
}

func isConstOrParam(v ssa.Value) bool {
	switch v.(type) {
	case *ssa.Const, *ssa.Parameter, *ssa.FreeVar:
		return true
	}
	return false
}

func (fr *frame) loopClauses(li *loopInfo) (invs, decs []*Clause) {
	if fr.fc == nil {
		return
	}
	for _, c := range fr.fc.Invs {
		if c.Loop == li.ordinal {
			invs = append(invs, c)
		}
	}
	for _, c := range fr.fc.Decs {
		if c.Loop == li.ordinal {
			decs = append(decs, c)
		}
	}
	return
}

// autoInvs derives invariants for range-over-slice index phis.
func (fr *frame) autoInvs(b *ssa.BasicBlock, phiVals map[*ssa.Phi]*Val) []*Term {
	var out []*Term
	for _, ins := range b.Instrs {
		phi, ok := ins.(*ssa.Phi)
		if !ok {
			break
		}
		if _, isSl := types.Unalias(phi.Type()).Underlying().(*types.Slice); isSl {
			// slices built up from nil / fresh arrays by append stay nil-or-fresh
			if derivedFresh(phi, map[ssa.Value]bool{}) {
				if pv := phiVals[phi]; pv != nil && pv.T != nil {
					al := fr.entry.get(alAKey)
					out = append(out, Or(Eq(SlArr(pv.T), IntLit(0)), Not(Select(al, SlArr(pv.T)))))
				}
			}
			continue
		}
		if phi.Comment != "rangeindex" {
			// counting loops: i = i + c (c > 0) keeps i >= init; i = i - c keeps i <= init
			pv := phiVals[phi]
			if pv == nil || pv.T == nil || pv.T.Sort != SInt || len(phi.Edges) != len(b.Preds) {
				continue
			}
			var init ssa.Value
			dir := 0
			okPat := true
			for k, p := range b.Preds {
				e := phi.Edges[k]
				if !backEdge(p, b) {
					if init != nil && init != e {
						okPat = false
					}
					init = e
					continue
				}
				if e == ssa.Value(phi) {
					continue // unchanged along this edge
				}
				bo, isB := e.(*ssa.BinOp)
				if !isB || bo.X != phi || (bo.Op != token.ADD && bo.Op != token.SUB) {
					okPat = false
					continue
				}
				c, isC := bo.Y.(*ssa.Const)
				if !isC || c.Value == nil {
					okPat = false
					continue
				}
				cv := c.Int64()
				d := 1
				if (bo.Op == token.ADD && cv < 0) || (bo.Op == token.SUB && cv > 0) {
					d = -1
				}
				if cv == 0 || (dir != 0 && dir != d) {
					okPat = false
				}
				dir = d
			}
			if okPat && init != nil && dir != 0 {
				var iv *Val
				if v, ok := fr.vals[init]; ok {
					iv = v
				} else if _, isC := init.(*ssa.Const); isC {
					iv = fr.get(init)
				}
				if iv != nil && iv.T != nil {
					if dir > 0 {
						out = append(out, Ge(pv.T, iv.T))
					} else {
						out = append(out, Le(pv.T, iv.T))
					}
				}
			}
			continue
		}
		// pattern: t3 = phi + 1 ; t4 = t3 < tN ; if t4
		var bound ssa.Value
		for _, ref := range *phi.Referrers() {
			bo, ok := ref.(*ssa.BinOp)
			if !ok || bo.Op != token.ADD || bo.Block() != b {
				continue
			}
			for _, r2 := range *bo.Referrers() {
				if cmp, ok := r2.(*ssa.BinOp); ok && cmp.Op == token.LSS && cmp.X == bo && cmp.Block() == b {
					bound = cmp.Y
				}
			}
		}
		pv := phiVals[phi]
		if pv == nil || pv.T == nil {
			continue
		}
		out = append(out, Le(IntLit(-1), pv.T))
		if bound != nil {
			if bv, ok := fr.vals[bound]; ok && bv.T != nil {
				out = append(out, Le(pv.T, Sub(bv.T, IntLit(1))))
			} else if _, isC := bound.(*ssa.Const); isC {
				out = append(out, Le(pv.T, Sub(fr.get(bound).T, IntLit(1))))
			}
		}
	}
	return out
}

// props: the properties that unlabelled obligations of this function belong
// to: every property some clause of its contract serves (a failed invariant
// invalidates all postconditions proved from it).
func (fr *frame) props() []string {
	if fr.fc == nil {
		return nil
	}
	return fr.fc.allProps()
}

func (fc *FuncContract) allProps() []string {
	seen := map[string]bool{}
	var out []string
	add := func(ps []string) {
		for _, p := range ps {
			if !seen[p] {
				seen[p] = true
				out = append(out, p)
			}
		}
	}
	add(fc.Props)
	for _, cs := range [][]*Clause{fc.Requires, fc.Ensures, fc.Invs, fc.Decs} {
		for _, c := range cs {
			add(c.Props)
		}
	}
	return out
}

func clauseProps(c *Clause, def []string) []string {
	if len(c.Props) > 0 {
		return c.Props
	}
	return def
}

func (fr *frame) enterLoop(b *ssa.BasicBlock, li *loopInfo, st *State, phiIn func(*ssa.Phi) *Val) {
	vc := fr.vc
	invs, _ := fr.loopClauses(li)
	fname := relName(fr.fn)
	// 1. establish: invariants on the incoming values
	inVals := map[*ssa.Phi]*Val{}
	for _, ins := range b.Instrs {
		phi, ok := ins.(*ssa.Phi)
		if !ok {
			break
		}
		inVals[phi] = phiIn(phi)
	}
	if !fr.isDiscovery {
		env := fr.loopEnv(b, st, inVals)
		for k, c := range invs {
			t, err := env.CompileBool(c.E)
			if err != nil {
				vc.errorf("%s:%d: loop %d invariant: %v", c.File, c.Line, li.ordinal, err)
				continue
			}
			nm := c.Label
			if nm == "" {
				nm = fmt.Sprintf("%d", k+1)
			}
			if o := vc.oblige("inv-init", fmt.Sprintf("inv-init/%s/L%d/%s", fname, li.ordinal, nm), clauseProps(c, fr.props()), st.reach, t, fr.pos(b.Instrs[0].Pos())); o != nil {
				o.Src = c.Src
			}
		}
	}
	// 2. havoc loop-carried state
	li.stamp = vc.stamp
	li.preHeap = st.heap
	if !fr.isDiscovery {
		d := fr.discover[b]
		if d != nil {
			li.mod, li.modAll = d.mod, d.modAll
		}
		if hv, ok := fr.fc.loopHavoc(li.ordinal); ok {
			li.mod = append(li.mod, hv...)
		}
		pre := st.heap
		if li.modAll {
			st.heap = st.heap.havocAll(fmt.Sprintf("L%d_", li.ordinal))
		}
		if len(li.mod) > 0 {
			st.heap = st.heap.havocKeys(li.mod, fmt.Sprintf("L%d", li.ordinal))
		}
		// allocation only grows
		for _, k := range []string{alKey, alAKey} {
			if pre.get(k) != st.heap.get(k) {
				x := Sym(freshBinder("x"), SInt)
				vc.assume(True, Forall([]Binder{{x.Op, SInt}}, Implies(Select(pre.get(k), x), Select(st.heap.get(k), x)),
					[]*Term{Select(st.heap.get(k), x)}, []*Term{Select(pre.get(k), x)}))
			}
		}
	}
	if !fr.isDiscovery {
		for _, k := range li.mod {
			if strings.HasPrefix(k, "E:") {
				vc.noteSucc(k, st.heap.get(k), li.preHeap.get(k))
				vc.noteSucc(k, st.heap.get(k), fr.entry.get(k))
			}
		}
	}
	if !fr.isDiscovery && fr.assignsOK != nil && !li.modAll {
		// frame auto-invariant: locations alive at entry and outside the assigns
		// clause still hold their entry values (every store is frame-checked)
		for _, k := range li.mod {
			pfx := k[:2]
			switch {
			case pfx == "F:" || pfx == "E:" || pfx == "C:" || strings.HasPrefix(k, "MV:") || strings.HasPrefix(k, "MH:"):
				r := Sym(freshBinder("r"), SInt)
				ok := fr.assignsOK(k, r, st)
				cur := Select(st.heap.get(k), r)
				vc.assume(True, Forall([]Binder{{r.Op, SInt}}, Implies(Not(ok), Eq(cur, Select(fr.entry.get(k), r))), []*Term{cur}))
			case pfx == "G:":
				if fr.assignsOK(k, nil, st).Op != "true" {
					vc.assume(True, Eq(st.heap.get(k), fr.entry.get(k)))
				}
			}
		}
	}
	fr.hdrHeaps[b] = st.heap
	phiVals := map[*ssa.Phi]*Val{}
	for _, ins := range b.Instrs {
		phi, ok := ins.(*ssa.Phi)
		if !ok {
			break
		}
		if fr.isDiscovery {
			phiVals[phi] = inVals[phi]
			if inVals[phi].T != nil {
				// still use a fresh symbol so that discovery explores the generic body
				phiVals[phi] = fr.freshVal(fr.sym(phi), phi.Type(), st)
			}
		} else {
			if inVals[phi].Loc != nil || inVals[phi].It != nil {
				phiVals[phi] = inVals[phi]
			} else {
				phiVals[phi] = fr.freshVal(fr.sym(phi), phi.Type(), st)
			}
		}
		fr.vals[phi] = phiVals[phi]
	}
	if fr.isDiscovery {
		return
	}
	// 3. assume invariants
	env := fr.loopEnv(b, st, phiVals)
	for _, c := range invs {
		t, err := env.CompileBool(c.E)
		if err != nil {
			continue // reported above
		}
		vc.assume(st.reach, t)
	}
	for _, t := range fr.autoInvs(b, phiVals) {
		vc.assume(st.reach, t)
	}
}

func (fc *FuncContract) loopHavoc(n int) ([]string, bool) {
	if fc == nil {
		return nil, false
	}
	h, ok := fc.LoopHavoc[n]
	return h, ok
}

func (fr *frame) backEdge(b, h *ssa.BasicBlock, c *Term, st *State) {
	vc := fr.vc
	li := fr.loops[h]
	if fr.isDiscovery {
		keys, all := st.heap.writtenSince(li.stamp)
		seen := map[string]bool{}
		for _, k := range li.mod {
			seen[k] = true
		}
		for _, k := range keys {
			if !seen[k] {
				li.mod = append(li.mod, k)
			}
		}
		sort.Strings(li.mod)
		li.modAll = li.modAll || all
		return
	}
	invs, decs := fr.loopClauses(li)
	fname := relName(fr.fn)
	// values of the phis along this edge
	vals := map[*ssa.Phi]*Val{}
	var k int
	for i, p := range h.Preds {
		if p == b {
			k = i
		}
	}
	for _, ins := range h.Instrs {
		phi, ok := ins.(*ssa.Phi)
		if !ok {
			break
		}
		vals[phi] = fr.get(phi.Edges[k])
	}
	env := fr.loopEnv(h, st, vals)
	for i, cl := range invs {
		t, err := env.CompileBool(cl.E)
		if err != nil {
			vc.errorf("%s:%d: loop %d invariant (step): %v", cl.File, cl.Line, li.ordinal, err)
			continue
		}
		nm := cl.Label
		if nm == "" {
			nm = fmt.Sprintf("%d", i+1)
		}
		if o := vc.oblige("inv-step", fmt.Sprintf("inv-step/%s/L%d/%s", fname, li.ordinal, nm), clauseProps(cl, fr.props()), c, t, fr.pos(b.Instrs[len(b.Instrs)-1].Pos())); o != nil {
			o.Src = cl.Src
		}
	}
	// auto invariants are inductive by construction of range loops; check them too (cheap)
	for i, t := range fr.autoInvs(h, vals) {
		vc.oblige("inv-step", fmt.Sprintf("inv-step/%s/L%d/auto%d", fname, li.ordinal, i+1), fr.props(), c, t, "")
	}
	// variant
	if len(decs) > 0 {
		hdrVals := map[*ssa.Phi]*Val{}
		for _, ins := range h.Instrs {
			if phi, ok := ins.(*ssa.Phi); ok {
				hdrVals[phi] = fr.vals[phi]
			}
		}
		envH := fr.loopEnv(h, &State{reach: st.reach, heap: fr.headerHeap(li, st)}, hdrVals)
		for _, cl := range decs {
			after, err1 := env.Compile(cl.E)
			before, err2 := envH.Compile(cl.E)
			if err1 != nil || err2 != nil {
				vc.errorf("%s:%d: loop %d decreases: %v %v", cl.File, cl.Line, li.ordinal, err1, err2)
				continue
			}
			a := env.toSort(after, types.Typ[types.Int])
			bf := envH.toSort(before, types.Typ[types.Int])
			vc.oblige("dec", fmt.Sprintf("dec/%s/L%d", fname, li.ordinal), clauseProps(cl, fr.props()), c,
				And(Lt(a.T, bf.T), Le(IntLit(0), bf.T)), "")
		}
	}
}

// headerHeap: the heap as it was right after the havoc at the loop header.
func (fr *frame) headerHeap(li *loopInfo, st *State) *Heap {
	return fr.hdrHeaps[li.header]
}

// derivedFresh: v is nil, a freshly allocated slice, or an append to such a
// value (coinductively through phis).
func derivedFresh(v ssa.Value, seen map[ssa.Value]bool) bool {
	if seen[v] {
		return true
	}
	seen[v] = true
	switch x := v.(type) {
	case *ssa.Const:
		return x.Value == nil
	case *ssa.Phi:
		for _, e := range x.Edges {
			if !derivedFresh(e, seen) {
				return false
			}
		}
		return true
	case *ssa.MakeSlice:
		return true
	case *ssa.Slice:
		if a, ok := x.X.(*ssa.Alloc); ok {
			_ = a
			return true
		}
		return false
	case *ssa.Call:
		if b, ok := x.Call.Value.(*ssa.Builtin); ok && b.Name() == "append" {
			return derivedFresh(x.Call.Args[0], seen)
		}
	}
	return false
}
