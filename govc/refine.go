package main

// Refinement of a function against the contract of a function type or
// interface method, and the registry (global map key -> function) lookup.

import (
	"fmt"
	"go/types"
	"regexp"
	"strings"

	"golang.org/x/tools/go/ssa"
)

type regEntry struct {
	key *ssa.Const
	fn  *ssa.Function
}

// registry scans the package initialiser for `global = map[K]F{ k: fn, … }`.
func (w *World) registry(pkgPath, global string) []regEntry {
	sp := w.spkgs[pkgPath]
	if sp == nil {
		return nil
	}
	initFn := sp.Func("init")
	if initFn == nil {
		return nil
	}
	g, ok := sp.Members[global].(*ssa.Global)
	if !ok {
		return nil
	}
	var m ssa.Value
	for _, b := range initFn.Blocks {
		for _, ins := range b.Instrs {
			if st, ok := ins.(*ssa.Store); ok && st.Addr == g {
				m = st.Val
			}
		}
	}
	if m == nil {
		return nil
	}
	var out []regEntry
	for _, b := range initFn.Blocks {
		for _, ins := range b.Instrs {
			mu, ok := ins.(*ssa.MapUpdate)
			if !ok || mu.Map != m {
				continue
			}
			k, ok := mu.Key.(*ssa.Const)
			if !ok {
				continue
			}
			v := mu.Value
			for {
				switch x := v.(type) {
				case *ssa.ChangeType:
					v = x.X
					continue
				case *ssa.MakeClosure:
					v = x.Fn
					continue
				}
				break
			}
			if fn, ok := v.(*ssa.Function); ok {
				out = append(out, regEntry{k, fn})
			}
		}
	}
	return out
}

var reRegKey = regexp.MustCompile(`^(\w+)\[(.+)\]$`)

// resolveRegistryKey maps "global[const]" to the registered function.
func (w *World) resolveRegistryKey(pkgPath, rel string) *ssa.Function {
	m := reRegKey.FindStringSubmatch(rel)
	if m == nil {
		return nil
	}
	c, ok := w.lookupConst(m[2], pkgPath)
	if !ok {
		return nil
	}
	for _, e := range w.registry(pkgPath, m[1]) {
		if e.key.Value != nil && e.key.Value.ExactString() == c.Val().ExactString() {
			return e.fn
		}
	}
	return nil
}

// VerifyRefinement: the function with contract implKey refines the contract
// named by its `refines` option.
func (w *World) VerifyRefinement(implKey string) (*VC, error) {
	fc := w.cons.Funcs[implKey]
	fn := w.findFunc(implKey)
	if fc == nil || fn == nil {
		return nil, fmt.Errorf("refinement: cannot bind %s", implKey)
	}
	target := fc.Opts["refines"]
	tkey := fc.Pkg + "::" + target
	tc := w.cons.Funcs[tkey]
	if tc == nil {
		return nil, fmt.Errorf("refinement: %s refines unknown contract %s", implKey, target)
	}
	vc := NewVC(w, "refine:"+relName(fn))
	pre, post := vc.entryHeap("0"), vc.entryHeap("1")
	// shared parameter symbols, bound positionally
	sig := fn.Signature
	var tnames []string
	if k := strings.Index(target, "."); k > 0 {
		// interface method: receiver first
		if it, err := w.resolveType(target[:k], fc.Pkg); err == nil {
			if iface, ok := it.Underlying().(*types.Interface); ok {
				for i := 0; i < iface.NumMethods(); i++ {
					if m := iface.Method(i); m.Name() == target[k+1:] {
						tnames = append(tnames, "recv")
						ms := m.Type().(*types.Signature)
						for j := 0; j < ms.Params().Len(); j++ {
							tnames = append(tnames, ms.Params().At(j).Name())
						}
					}
				}
			}
		}
	} else if named, err := w.resolveType(target, fc.Pkg); err == nil {
		if s, ok := named.Underlying().(*types.Signature); ok {
			for i := 0; i < s.Params().Len(); i++ {
				tnames = append(tnames, s.Params().At(i).Name())
			}
		}
	}
	mk := func(names []string, h, old *Heap) *Env {
		env := &Env{w: w, pkg: fc.Pkg, vars: map[string]TV{}, used: vc.used, heap: h.get, old: old.get}
		return env
	}
	implPre, implPost := mk(nil, pre, pre), mk(nil, post, pre)
	tgtPre, tgtPost := mk(nil, pre, pre), mk(nil, post, pre)
	var keyTerm *Term
	for i, p := range fn.Params {
		s := w.sortOf(p.Type())
		if s == "" {
			return nil, fmt.Errorf("refinement: compound parameter")
		}
		c := vc.declare(fmt.Sprintf("rf!p%d", i), s)
		vc.assume(True, vc.wfTerm(c, p.Type(), nil, nil))
		// data invariants of the parameters hold on entry, as in the function's own VC
		for _, t := range w.dataInvTerms(&Val{T: c, Ty: p.Type()}, pre, vc) {
			vc.assume(True, t)
		}
		tv := TV{T: c, Ty: p.Type()}
		for _, e := range []*Env{implPre, implPost} {
			e.vars[p.Name()] = tv
		}
		if i < len(tnames) {
			ttv := tv
			if tnames[i] == "recv" && s == SInt {
				if _, isPtr := types.Unalias(p.Type()).Underlying().(*types.Pointer); isPtr {
					vc.assume(True, Not(Eq(c, IntLit(0)))) // methods are verified for non-nil receivers (thin default contract)
					// the interface contract talks about the interface value holding the receiver
					ttv = TV{T: MkIface(IntLit(int64(w.tagOf(p.Type()))), c), Ty: types.NewInterfaceType(nil, nil)}
				}
			}
			for _, e := range []*Env{tgtPre, tgtPost} {
				e.vars[tnames[i]] = ttv
			}
			if tnames[i] == tc.Opts["keyparam"] {
				keyTerm = c
			}
		}
	}
	// results
	var resTVs []TV
	defer func() {}()
	for i := 0; i < sig.Results().Len(); i++ {
		rt := sig.Results().At(i).Type()
		c := vc.declare(fmt.Sprintf("rf!r%d", i), w.sortOf(rt))
		vc.assume(True, vc.wfTerm(c, rt, nil, nil))
		tv := TV{T: c, Ty: rt}
		resTVs = append(resTVs, tv)
		if nm := sig.Results().At(i).Name(); nm != "" && nm != "_" {
			implPost.vars[nm] = tv
			tgtPost.vars[nm] = tv
		}
		if sig.Results().Len() > 1 && i == sig.Results().Len()-1 {
			implPost.vars["result"] = TV{Fs: resTVs, Ty: sig.Results()}
			tgtPost.vars["result"] = TV{Fs: resTVs, Ty: sig.Results()}
		}
		if sig.Results().Len() == 1 {
			implPost.vars["result"] = tv
			tgtPost.vars["result"] = tv
		}
	}
	props := fc.Props
	var tpre []*Term
	for _, cl := range tc.Requires {
		t, err := tgtPre.CompileBool(cl.E)
		if err != nil {
			return nil, fmt.Errorf("%s:%d: %v", cl.File, cl.Line, err)
		}
		tpre = append(tpre, t)
	}
	// registry keys under which the function is stored
	var keyAlts []*Term
	if reg := tc.Opts["registry"]; reg != "" && keyTerm != nil {
		for _, e := range w.registry(fc.Pkg, reg) {
			if e.fn == fn {
				keyAlts = append(keyAlts, Eq(keyTerm, w.constTerm(e.key.Value, e.key.Type())))
			}
		}
		if len(keyAlts) == 0 {
			return nil, fmt.Errorf("refinement: %s is not registered in %s", relName(fn), reg)
		}
	}
	hyp := And(append(tpre, Or(keyAlts...))...)
	if len(keyAlts) == 0 {
		hyp = And(tpre...)
	}
	for k, cl := range fc.Requires {
		t, err := implPre.CompileBool(cl.E)
		if err != nil {
			return nil, fmt.Errorf("%s:%d: %v", cl.File, cl.Line, err)
		}
		vc.oblige("refine", fmt.Sprintf("refine/%s/pre%d", relName(fn), k+1), props, hyp, t, "")
	}
	var ipost []*Term
	for _, cl := range fc.Ensures {
		t, err := implPost.CompileBool(cl.E)
		if err != nil {
			return nil, fmt.Errorf("%s:%d: %v", cl.File, cl.Line, err)
		}
		ipost = append(ipost, t)
	}
	type tgtClause struct {
		nm string
		t  *Term
	}
	var tposts []tgtClause
	for k, cl := range tc.Ensures {
		t, err := tgtPost.CompileBool(cl.E)
		if err != nil {
			return nil, fmt.Errorf("%s:%d: %v", cl.File, cl.Line, err)
		}
		nm := cl.Label
		if nm == "" {
			nm = fmt.Sprintf("%d", k+1)
		}
		tposts = append(tposts, tgtClause{nm, t})
	}
	// what the implementation's frame leaves alone is the same before and after
	if fc.HasAssigns {
		touched := map[string]bool{}
		all := false
		for _, a := range fc.Assigns {
			ks := w.assignKeys(a, implPre)
			if len(ks) == 0 {
				all = true
			}
			for _, k := range ks {
				touched[k] = true
			}
		}
		if !all {
			for _, key := range sortedKeys(w.heapSort) {
				if touched[key] || strings.HasSuffix(key, "@entry") {
					continue
				}
				_, in0 := vc.decl[heapSym(key, "0")]
				_, in1 := vc.decl[heapSym(key, "1")]
				if in0 && in1 {
					vc.assume(True, Eq(pre.get(key), post.get(key)))
				}
			}
		}
	}
	for _, tp := range tposts {
		vc.oblige("refine", fmt.Sprintf("refine/%s/post/%s", relName(fn), tp.nm), props, And(hyp, And(ipost...)), tp.t, "")
	}
	// frame: the implementation may assign only what the target allows
	if tc.HasAssigns {
		ok := fc.HasAssigns
		if ok {
			allowed := map[string]bool{}
			for _, a := range tc.Assigns {
				allowed[a] = true
				for _, k := range w.assignKeys(a, tgtPre) {
					allowed["heap "+k] = true
				}
			}
			for _, a := range fc.Assigns {
				if allowed[a] || allowed["everything"] {
					continue
				}
				ks := w.assignKeys(a, implPre)
				if len(ks) == 0 {
					ok = false
				}
				for _, k := range ks {
					if !allowed["heap "+k] {
						ok = false
					}
				}
			}
		}
		g := True
		if !ok {
			g = False
		}
		vc.oblige("refine", fmt.Sprintf("refine/%s/assigns", relName(fn)), props, True, g, "")
	}
	_ = strings.TrimSpace
	return vc, nil
}

// assignKeys: the heap keys an assigns entry may touch (over-approximation).
func (w *World) assignKeys(a string, env *Env) []string {
	switch {
	case a == "everything":
		return nil
	case strings.HasPrefix(a, "heap "):
		return []string{strings.TrimSpace(a[5:])}
	case strings.HasSuffix(a, "[*]"):
		e, err := parseExpr(strings.TrimSuffix(a, "[*]"))
		if err != nil {
			return nil
		}
		tv, err := env.Compile(e)
		if err != nil || tv.T == nil || tv.T.Sort != SSlice {
			return nil
		}
		return []string{w.elemHeap(types.Unalias(tv.Ty).Underlying().(*types.Slice).Elem())}
	case strings.HasPrefix(a, "ghost("):
		return []string{"GH:int"}
	case strings.HasPrefix(a, "*"):
		e, err := parseExpr(a[1:])
		if err != nil {
			return nil
		}
		tv, err := env.Compile(e)
		if err != nil {
			return nil
		}
		if pt, ok := types.Unalias(tv.Ty).Underlying().(*types.Pointer); ok {
			return []string{w.cellHeap(pt.Elem())}
		}
		return nil
	}
	k := strings.LastIndex(a, ".")
	if k < 0 {
		return nil
	}
	e, err := parseExpr(a[:k])
	if err != nil {
		return nil
	}
	tv, err := env.Compile(e)
	if err != nil {
		return nil
	}
	pt, ok := types.Unalias(tv.Ty).Underlying().(*types.Pointer)
	if !ok {
		return nil
	}
	st, ok := w.repoStruct(pt.Elem())
	if !ok {
		return nil
	}
	var keys []string
	var collect func(prefix string, s *types.Struct, only string)
	collect = func(prefix string, s *types.Struct, only string) {
		for i := 0; i < s.NumFields(); i++ {
			f := s.Field(i)
			if only != "*" && f.Name() != only {
				continue
			}
			if sub, ok := w.repoStruct(f.Type()); ok {
				collect(prefix+"."+f.Name(), sub, "*")
			} else {
				keys = append(keys, w.fieldHeapP(prefix, s, i))
			}
		}
	}
	collect(structPrefix(pt.Elem()), st, a[k+1:])
	return keys
}
