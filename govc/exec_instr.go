package main

// Symbolic semantics of SSA instructions.

import (
	"fmt"
	"go/ast"
	"go/printer"
	"go/token"
	"go/types"
	"strings"

	"golang.org/x/tools/go/ast/astutil"
	"golang.org/x/tools/go/ssa"
)

func (fr *frame) safety(kind string, ins ssa.Instruction, st *State, goal *Term) {
	if fr.isDiscovery {
		return
	}
	if kind == "overflow" && fr.fc != nil && fr.fc.Opts["assume-no-overflow"] != "" {
		fr.vc.assume(st.reach, goal)
		fr.vc.note("unchecked assumption in %s: int arithmetic does not overflow (counters bounded by the input size)", relName(fr.fn))
		return
	}
	if fr.fc != nil && fr.fc.NoSafety {
		fr.vc.assume(st.reach, goal)
		return
	}
	txt := fr.exprText(ins.Pos(), kind)
	name := fmt.Sprintf("safety/%s/%s:%s", relName(fr.fn), kind, txt)
	props := fr.safetyProps()
	fr.vc.oblige("safety", name, props, st.reach, goal, fr.pos(ins.Pos()))
	// after the check, execution continues only if it held
	fr.vc.assume(st.reach, goal)
}

func (fr *frame) safetyProps() []string {
	ps := []string{"C12"}
	if fr.fc != nil {
		if s, ok := fr.fc.Opts["safety"]; ok {
			ps = strings.Fields(s)
		}
	}
	// when inlined, the obligation belongs to the outermost function
	for p := fr.parent; p != nil; p = p.parent {
		if p.fc != nil {
			if s, ok := p.fc.Opts["safety"]; ok {
				ps = strings.Fields(s)
			}
		}
	}
	return ps
}

// exprText returns a normalised source text for the expression at pos.
func (fr *frame) exprText(pos token.Pos, kind string) string {
	if !pos.IsValid() {
		return "?"
	}
	for _, p := range fr.w.pkgs {
		for _, f := range p.Syntax {
			if f.Pos() <= pos && pos < f.End() {
				path, _ := astutil.PathEnclosingInterval(f, pos, pos)
				for _, n := range path {
					ok := false
					switch n.(type) {
					case *ast.IndexExpr:
						ok = kind == "index" || kind == "nil" || kind == "nilmap"
					case *ast.SliceExpr:
						ok = kind == "slice"
					case *ast.SelectorExpr, *ast.StarExpr:
						ok = kind == "nil"
					case *ast.CallExpr:
						ok = kind == "panic" || kind == "nil" || kind == "call"
					case *ast.BinaryExpr:
						ok = kind == "overflow" || kind == "div0"
					case *ast.TypeAssertExpr:
						ok = kind == "assert"
					case *ast.IncDecStmt, *ast.AssignStmt:
						ok = kind == "overflow" || kind == "nilmap"
					case *ast.RangeStmt:
						ok = false
					}
					if ok {
						var sb strings.Builder
						printer.Fprint(&sb, fr.w.fset, n)
						s := strings.Join(strings.Fields(sb.String()), "")
						if len(s) > 70 {
							s = s[:70]
						}
						return s
					}
				}
				return "?"
			}
		}
	}
	return "?"
}

func (fr *frame) execInstr(ins ssa.Instruction, st *State) {
	w, vc := fr.w, fr.vc
	fr.lockChecks(ins, st)
	switch x := ins.(type) {
	case *ssa.DebugRef:
	case *ssa.If, *ssa.Jump:
	case *ssa.Return:
		fr.runDefers(st, x)
		var vs []*Val
		for _, r := range x.Results {
			vs = append(vs, fr.get(r))
		}
		fr.rets = append(fr.rets, retInfo{reach: st.reach, vals: vs, st: &State{reach: st.reach, heap: st.heap}})
	case *ssa.RunDefers:
		// handled at Return (Go runs them there); nothing to do here
	case *ssa.Panic:
		fr.safety("panic", x, st, False)
	case *ssa.BinOp:
		fr.vals[x] = fr.named(x, fr.binop(x, st))
	case *ssa.UnOp:
		fr.vals[x] = fr.unop(x, st)
	case *ssa.Alloc:
		fr.vals[x] = fr.alloc(x, st)
	case *ssa.FieldAddr:
		fr.vals[x] = fr.fieldAddr(x, st)
	case *ssa.Field:
		base := fr.get(x.X)
		if base.Fs == nil {
			fr.fail(x.Pos(), "field of non-compound value")
		}
		fr.vals[x] = base.Fs[x.Field]
	case *ssa.IndexAddr:
		fr.vals[x] = fr.indexAddr(x, st)
	case *ssa.Index:
		if !isString(x.X.Type()) {
			fr.fail(x.Pos(), "Index on array value unsupported")
		}
		base := fr.get(x.X)
		it := fr.intIndex(fr.get(x.Index), x)
		fr.safety("index", x, st, And(Le(IntLit(0), it), Lt(it, StrLen(base.T))))
		fr.vals[x] = fr.named(x, &Val{T: App("bytes", BV(8), StrArr(base.T), Idx(StrOff(base.T), it)), Ty: x.Type()})
	case *ssa.Lookup:
		fr.vals[x] = fr.lookup(x, st)
	case *ssa.Store:
		fr.store(fr.get(x.Addr), fr.get(x.Val), st, x)
	case *ssa.Slice:
		fr.vals[x] = fr.named(x, fr.slice(x, st))
	case *ssa.Phi:
	case *ssa.Extract:
		t := fr.get(x.Tuple)
		if t.Fs == nil || x.Index >= len(t.Fs) {
			fr.fail(x.Pos(), "extract from non-tuple")
		}
		fr.vals[x] = t.Fs[x.Index]
	case *ssa.Call:
		fr.vals[x] = fr.call(x, x.Common(), st)
	case *ssa.Defer:
		c := x.Common()
		d := &deferred{guard: st.reach, call: c, instr: x}
		for _, a := range c.Args {
			d.args = append(d.args, fr.get(a))
		}
		if !c.IsInvoke() {
			if _, isB := c.Value.(*ssa.Builtin); !isB {
				d.fnv = fr.get(c.Value)
			}
		} else {
			d.fnv = fr.get(c.Value)
		}
		st.defers = append(st.defers, d)
	case *ssa.MakeInterface:
		fr.vals[x] = fr.named(x, fr.makeInterface(x, st))
	case *ssa.ChangeInterface:
		fr.vals[x] = fr.get(x.X)
	case *ssa.ChangeType:
		v := fr.get(x.X)
		nv := *v
		nv.Ty = x.Type()
		fr.vals[x] = &nv
	case *ssa.Convert:
		fr.vals[x] = fr.named(x, fr.convert(x, st))
	case *ssa.TypeAssert:
		fr.vals[x] = fr.typeAssert(x, st)
	case *ssa.MakeSlice:
		fr.vals[x] = fr.makeSlice(x, st)
	case *ssa.MakeMap:
		fr.vals[x] = fr.makeMap(x, st)
	case *ssa.MapUpdate:
		fr.mapUpdate(x, st)
	case *ssa.MakeClosure:
		fr.vals[x] = &Val{Clo: x, Ty: x.Type()}
	case *ssa.Range:
		fr.vals[x] = fr.rangeInit(x, st)
	case *ssa.Next:
		fr.vals[x] = fr.rangeNext(x, st)
	default:
		_ = w
		_ = vc
		fr.fail(ins.Pos(), "unsupported instruction %T: %s", ins, ins)
	}
}

// ---------------------------------------------------------------- arithmetic

func (fr *frame) binop(x *ssa.BinOp, st *State) *Val {
	a, b := fr.get(x.X), fr.get(x.Y)
	boolT := types.Typ[types.Bool]
	switch x.Op {
	case token.EQL, token.NEQ:
		t := fr.equalVals(a, b, x)
		if x.Op == token.NEQ {
			t = Not(t)
		}
		return &Val{T: t, Ty: boolT}
	}
	if a.T == nil || b.T == nil {
		fr.fail(x.Pos(), "binary operator %s on compound values", x.Op)
	}
	s := a.T.Sort
	if s == SStr {
		switch x.Op {
		case token.ADD:
			return fr.concat(a, b, st, x)
		case token.LSS, token.LEQ, token.GTR, token.GEQ:
			c := App("strcmp", SInt, App("sv", "SV", a.T), App("sv", "SV", b.T))
			op := map[token.Token]string{token.LSS: "<", token.LEQ: "<=", token.GTR: ">", token.GEQ: ">="}[x.Op]
			return &Val{T: cmpInt(op, c, IntLit(0)), Ty: boolT}
		}
		fr.fail(x.Pos(), "string operator %s", x.Op)
	}
	if s == SBool {
		switch x.Op {
		case token.AND, token.LAND:
			return &Val{T: And(a.T, b.T), Ty: boolT}
		case token.OR, token.LOR:
			return &Val{T: Or(a.T, b.T), Ty: boolT}
		}
	}
	if s == SInt || s == SReal {
		switch x.Op {
		case token.LSS:
			return &Val{T: Lt(a.T, b.T), Ty: boolT}
		case token.LEQ:
			return &Val{T: Le(a.T, b.T), Ty: boolT}
		case token.GTR:
			return &Val{T: Gt(a.T, b.T), Ty: boolT}
		case token.GEQ:
			return &Val{T: Ge(a.T, b.T), Ty: boolT}
		}
		if s == SReal {
			fr.fail(x.Pos(), "float arithmetic unsupported")
		}
		var r *Term
		switch x.Op {
		case token.ADD:
			r = Add(a.T, b.T)
		case token.SUB:
			r = Sub(a.T, b.T)
		case token.MUL:
			r = App("*", SInt, a.T, b.T)
		case token.QUO, token.REM:
			fr.safety("div0", x, st, Not(Eq(b.T, IntLit(0))))
			// Go truncates toward zero
			q := Ite(Ge(a.T, IntLit(0)),
				Ite(Gt(b.T, IntLit(0)), App("div", SInt, a.T, b.T), Sub(IntLit(0), App("div", SInt, a.T, Sub(IntLit(0), b.T)))),
				Ite(Gt(b.T, IntLit(0)), Sub(IntLit(0), App("div", SInt, Sub(IntLit(0), a.T), b.T)), App("div", SInt, Sub(IntLit(0), a.T), Sub(IntLit(0), b.T))))
			if x.Op == token.QUO {
				return &Val{T: q, Ty: x.Type()}
			}
			return &Val{T: Sub(a.T, App("*", SInt, q, b.T)), Ty: x.Type()}
		default:
			fr.fail(x.Pos(), "int operator %s unsupported", x.Op)
		}
		if _, lit := r.IntVal(); !lit {
			fr.safety("overflow", x, st, And(Le(minIntT, r), Le(r, maxIntT)))
		}
		return &Val{T: r, Ty: x.Type()}
	}
	if wd := s.BVWidth(); wd > 0 {
		signed := isSigned(x.X.Type())
		bt := b.T
		switch x.Op {
		case token.SHL, token.SHR:
			// shift count may have another type: bring to width
			bt = fr.shiftCount(b, wd, x)
			op := "bvshl"
			if x.Op == token.SHR {
				op = "bvlshr"
				if signed {
					op = "bvashr"
				}
			}
			return &Val{T: App(op, s, a.T, bt), Ty: x.Type()}
		}
		if bt.Sort != s {
			fr.fail(x.Pos(), "bit-vector operand sorts differ")
		}
		cmp := func(u, sg string) *Val {
			if signed {
				return &Val{T: App(sg, SBool, a.T, bt), Ty: boolT}
			}
			return &Val{T: App(u, SBool, a.T, bt), Ty: boolT}
		}
		switch x.Op {
		case token.LSS:
			return cmp("bvult", "bvslt")
		case token.LEQ:
			return cmp("bvule", "bvsle")
		case token.GTR:
			return cmp("bvugt", "bvsgt")
		case token.GEQ:
			return cmp("bvuge", "bvsge")
		case token.ADD:
			return &Val{T: App("bvadd", s, a.T, bt), Ty: x.Type()}
		case token.SUB:
			return &Val{T: App("bvsub", s, a.T, bt), Ty: x.Type()}
		case token.MUL:
			return &Val{T: App("bvmul", s, a.T, bt), Ty: x.Type()}
		case token.AND:
			return &Val{T: App("bvand", s, a.T, bt), Ty: x.Type()}
		case token.OR:
			return &Val{T: App("bvor", s, a.T, bt), Ty: x.Type()}
		case token.XOR:
			return &Val{T: App("bvxor", s, a.T, bt), Ty: x.Type()}
		case token.AND_NOT:
			return &Val{T: App("bvand", s, a.T, App("bvnot", s, bt)), Ty: x.Type()}
		case token.QUO, token.REM:
			fr.safety("div0", x, st, Not(Eq(bt, BVLitU(0, wd))))
			op := map[bool]map[token.Token]string{false: {token.QUO: "bvudiv", token.REM: "bvurem"}, true: {token.QUO: "bvsdiv", token.REM: "bvsrem"}}[signed][x.Op]
			return &Val{T: App(op, s, a.T, bt), Ty: x.Type()}
		}
	}
	fr.fail(x.Pos(), "binary operator %s on sort %s unsupported", x.Op, s)
	return nil
}

func (fr *frame) shiftCount(b *Val, wd int, x ssa.Instruction) *Term {
	if b.T.Sort == SInt {
		if v, ok := b.T.IntVal(); ok {
			return BVLitU(uint64(v), wd)
		}
		return App(fmt.Sprintf("i2bv%d", wd), BV(wd), b.T)
	}
	bw := b.T.Sort.BVWidth()
	switch {
	case bw == wd:
		return b.T
	case bw < wd:
		return App(fmt.Sprintf("(_ zero_extend %d)", wd-bw), BV(wd), b.T)
	default:
		// saturate: if any high bit set the shift is >= width anyway
		hi := App(fmt.Sprintf("(_ extract %d %d)", bw-1, wd), BV(bw-wd), b.T)
		lo := App(fmt.Sprintf("(_ extract %d 0)", wd-1), BV(wd), b.T)
		return Ite(Eq(hi, BVLitU(0, bw-wd)), lo, BVLitU(uint64(wd), wd))
	}
}

func (fr *frame) equalVals(a, b *Val, at ssa.Instruction) *Term {
	if a.Fs != nil || b.Fs != nil {
		if a.Fs == nil || b.Fs == nil || len(a.Fs) != len(b.Fs) {
			fr.fail(at.Pos(), "comparison of differently shaped values")
		}
		var cs []*Term
		for i := range a.Fs {
			cs = append(cs, fr.equalVals(a.Fs[i], b.Fs[i], at))
		}
		return And(cs...)
	}
	if a.T == nil || b.T == nil {
		fr.fail(at.Pos(), "comparison of non-scalar values")
	}
	if a.T.Sort != b.T.Sort {
		fr.fail(at.Pos(), "comparison of sorts %s and %s", a.T.Sort, b.T.Sort)
	}
	switch a.T.Sort {
	case SStr:
		return strEqTerms(fr.w, a.T, b.T)
	case SSlice:
		// only comparison with nil is legal Go
		if termEq(b.T, NilSlice) {
			return Eq(SlArr(a.T), IntLit(0))
		}
		if termEq(a.T, NilSlice) {
			return Eq(SlArr(b.T), IntLit(0))
		}
		fr.fail(at.Pos(), "slice comparison")
	case SIface:
		if termEq(b.T, NilIface) {
			return Eq(IfTag(a.T), IntLit(0))
		}
		if termEq(a.T, NilIface) {
			return Eq(IfTag(b.T), IntLit(0))
		}
		return fr.ifaceEq(a.T, b.T)
	}
	return Eq(a.T, b.T)
}

// ifaceEq: Go equality of two interface values.  Dynamic types must be
// identical; pointer payloads compare by identity; boxed values compare by
// their boxed content (box ids are canonical: equal content <=> equal id,
// see makeInterface).
func (fr *frame) ifaceEq(a, b *Term) *Term {
	return And(Eq(IfTag(a), IfTag(b)), Eq(IfRef(a), IfRef(b)))
}

func (fr *frame) unop(x *ssa.UnOp, st *State) *Val {
	switch x.Op {
	case token.NOT:
		return fr.named(x, &Val{T: Not(fr.get(x.X).T), Ty: x.Type()})
	case token.SUB:
		v := fr.get(x.X)
		if v.T.Sort == SInt {
			r := Sub(IntLit(0), v.T)
			fr.safety("overflow", x, st, Le(r, maxIntT))
			return fr.named(x, &Val{T: r, Ty: x.Type()})
		}
		return fr.named(x, &Val{T: App("bvneg", v.T.Sort, v.T), Ty: x.Type()})
	case token.XOR:
		v := fr.get(x.X)
		if v.T.Sort.BVWidth() == 0 {
			fr.fail(x.Pos(), "^ on int unsupported")
		}
		return fr.named(x, &Val{T: App("bvnot", v.T.Sort, v.T), Ty: x.Type()})
	case token.MUL:
		return fr.load(fr.get(x.X), x.Type(), st, x, true)
	}
	fr.fail(x.Pos(), "unary operator %s unsupported", x.Op)
	return nil
}

// ---------------------------------------------------------------- memory

// ptrLoc turns a pointer value into a location.
func (fr *frame) ptrLoc(p *Val, at ssa.Instruction, st *State, check bool) *Loc {
	if p.Loc != nil {
		return p.Loc
	}
	if p.T == nil {
		fr.fail(at.Pos(), "dereference of non-pointer value")
	}
	pt, ok := types.Unalias(p.Ty).Underlying().(*types.Pointer)
	if !ok {
		fr.fail(at.Pos(), "dereference of %s", p.Ty)
	}
	if check {
		fr.safety("nil", at, st, Not(Eq(p.T, IntLit(0))))
	}
	el := pt.Elem()
	if s, ok := fr.w.repoStruct(el); ok {
		return &Loc{Kind: LStruct, Ref: p.T, Prefix: structPrefix(el), St: s, Ty: el}
	}
	if _, isArr := types.Unalias(el).Underlying().(*types.Array); isArr {
		fr.fail(at.Pos(), "load/store of whole array")
	}
	return &Loc{Kind: LCell, Ref: p.T, Key: fr.w.cellHeap(el), Ty: el}
}

func (fr *frame) load(p *Val, ty types.Type, st *State, at ssa.Instruction, check bool) *Val {
	l := fr.ptrLoc(p, at, st, check)
	v := fr.loadLoc(l, st, at)
	if v.T != nil && at != nil {
		if val, ok := at.(ssa.Value); ok {
			switch v.T.Op {
			case "mkslice", "mkstr", "mkiface":
			default:
				v.T = fr.vc.define(fr.sym(val), v.T)
			}
		}
	}
	// values read from memory are well formed; what is read from a location
	// that has not been written since function entry was already alive at entry
	wfSt := st
	if l.Key != "" && st.heap.get(l.Key) == fr.entry.get(l.Key) {
		wfSt = &State{reach: st.reach, heap: fr.entry}
	}
	fr.assumeWF(v, wfSt)
	return v
}

var sentinelErrors = map[string]bool{"G:io.EOF": true, "G:io.ErrUnexpectedEOF": true}

func (fr *frame) loadLoc(l *Loc, st *State, at ssa.Instruction) *Val {
	h := st.heap
	switch l.Kind {
	case LField, LCell:
		return &Val{T: Select(h.get(l.Key), l.Ref), Ty: l.Ty}
	case LElem:
		return &Val{T: Select(Select(h.get(l.Key), l.Ref), l.Idx), Ty: l.Ty}
	case LGlobal:
		if sentinelErrors[l.Key] {
			// library sentinel errors are non-nil error values (assumed; they are never reassigned)
			fr.vc.assume(True, Not(Eq(IfTag(h.get(l.Key)), IntLit(0))))
		}
		return &Val{T: h.get(l.Key), Ty: l.Ty}
	case LStruct:
		v := &Val{Ty: l.Ty}
		for i := 0; i < l.St.NumFields(); i++ {
			v.Fs = append(v.Fs, fr.loadLoc(fr.subLoc(l, i), st, at))
		}
		return v
	}
	panic("loadLoc")
}

// subLoc: location of field i of the struct at l.
func (fr *frame) subLoc(l *Loc, i int) *Loc {
	f := l.St.Field(i)
	if sub, ok := fr.w.repoStruct(f.Type()); ok {
		return &Loc{Kind: LStruct, Ref: l.Ref, Prefix: l.Prefix + "." + f.Name(), St: sub, Ty: f.Type()}
	}
	return &Loc{Kind: LField, Ref: l.Ref, Key: fr.w.fieldHeapP(l.Prefix, l.St, i), Ty: f.Type()}
}

func (fr *frame) store(p, v *Val, st *State, at ssa.Instruction) {
	l := fr.ptrLoc(p, at, st, true)
	fr.storeLoc(l, v, st, at, true)
}

func (fr *frame) storeLoc(l *Loc, v *Val, st *State, at ssa.Instruction, checkFrame bool) {
	h := st.heap
	switch l.Kind {
	case LField, LCell:
		if v.T == nil {
			fr.fail(at.Pos(), "store of compound value into scalar location")
		}
		if checkFrame {
			fr.frameCheck(l.Key, l.Ref, nil, st, at)
		}
		st.heap = h.set(l.Key, Store(h.get(l.Key), l.Ref, v.T))
	case LElem:
		if v.T == nil {
			fr.fail(at.Pos(), "store of compound value into slice element")
		}
		if checkFrame {
			fr.frameCheck(l.Key, l.Ref, l.Idx, st, at)
		}
		st.heap = h.set(l.Key, Store(h.get(l.Key), l.Ref, Store(Select(h.get(l.Key), l.Ref), l.Idx, v.T)))
	case LGlobal:
		if checkFrame {
			fr.frameCheck(l.Key, nil, nil, st, at)
		}
		st.heap = h.set(l.Key, v.T)
	case LStruct:
		if v.Fs == nil || len(v.Fs) != l.St.NumFields() {
			fr.fail(at.Pos(), "store of non-struct value into struct location")
		}
		for i := range v.Fs {
			fr.storeLoc(fr.subLoc(l, i), v.Fs[i], st, at, checkFrame)
		}
	}
}

func (fr *frame) alloc(x *ssa.Alloc, st *State) *Val {
	el := x.Type().(*types.Pointer).Elem()
	if arr, ok := types.Unalias(el).Underlying().(*types.Array); ok {
		a := fr.newArr(fr.sym(x), st)
		key := fr.w.elemHeap(arr.Elem())
		es := fr.w.sortOf(arr.Elem())
		zero := App(fmt.Sprintf("(as const %s)", ArrSort(SInt, es)), ArrSort(SInt, es), fr.w.zeroOfSort(es))
		st.heap = st.heap.set(key, Store(st.heap.get(key), a, zero))
		return &Val{T: a, Ty: x.Type()}
	}
	if fr.w.sortOf(el) != "" && !allocEscapes(x) {
		// a local whose address never leaves this function: a private scalar
		// cell that calls cannot touch
		key := fr.w.regHeap(fmt.Sprintf("L:%s.%s", relName(fr.fn), x.Name()), fr.w.sortOf(el), el)
		known := false
		for _, k := range fr.vc.localKeys {
			if k == key {
				known = true
			}
		}
		if !known {
			fr.vc.localKeys = append(fr.vc.localKeys, key)
		}
		st.heap = st.heap.set(key, fr.w.zero(el))
		return &Val{Loc: &Loc{Kind: LGlobal, Key: key, Ty: el}, Ty: x.Type()}
	}
	r := fr.newRef(fr.sym(x), st)
	v := &Val{T: r, Ty: x.Type()}
	// the ghost cell of an object that the function itself allocates starts at 0 (ghost state is ours
	// to define: 0 is "nothing read / nothing written yet" in every ghost model of the contract files)
	if _, ok := fr.w.heapSort["GH:int"]; ok {
		st.heap = st.heap.set("GH:int", Store(st.heap.get("GH:int"), r, IntLit(0)))
	}
	if _, ok := fr.w.repoStruct(el); ok {
		fr.storeLoc(fr.ptrLoc(v, x, st, false), fr.zeroVal(el), st, x, false)
	} else {
		key := fr.w.cellHeap(el)
		st.heap = st.heap.set(key, Store(st.heap.get(key), r, fr.w.zero(el)))
	}
	return v
}

func (fr *frame) newRef(base string, st *State) *Term {
	r := fr.vc.fresh(base, SInt)
	al := st.heap.get(alKey)
	fr.vc.assume(True, And(Gt(r, IntLit(0)), Not(Select(al, r))))
	st.heap = st.heap.set(alKey, Store(al, r, True))
	return r
}

func (fr *frame) newArr(base string, st *State) *Term {
	r := fr.vc.fresh(base, SInt)
	al := st.heap.get(alAKey)
	fr.vc.assume(True, And(Gt(r, IntLit(0)), Not(Select(al, r))))
	st.heap = st.heap.set(alAKey, Store(al, r, True))
	return r
}

func (fr *frame) fieldAddr(x *ssa.FieldAddr, st *State) *Val {
	base := fr.get(x.X)
	var l *Loc
	if base.Loc != nil {
		if base.Loc.Kind != LStruct {
			fr.fail(x.Pos(), "field address of non-struct location")
		}
		l = base.Loc
	} else {
		pt := types.Unalias(x.X.Type()).Underlying().(*types.Pointer)
		if _, ok := fr.w.repoStruct(pt.Elem()); !ok {
			fr.fail(x.Pos(), "field address in external struct %s", pt.Elem())
		}
		l = fr.ptrLoc(base, x, st, true)
	}
	return &Val{Loc: fr.subLoc(l, x.Field), Ty: x.Type()}
}

func (fr *frame) indexAddr(x *ssa.IndexAddr, st *State) *Val {
	base := fr.get(x.X)
	idx := fr.get(x.Index)
	it := fr.intIndex(idx, x)
	switch u := types.Unalias(x.X.Type()).Underlying().(type) {
	case *types.Slice:
		fr.safety("index", x, st, And(Le(IntLit(0), it), Lt(it, SlLen(base.T))))
		return &Val{Loc: &Loc{Kind: LElem, Ref: SlArr(base.T), Idx: Idx(SlOff(base.T), it), Key: fr.w.elemHeap(u.Elem()), Ty: u.Elem()}, Ty: x.Type()}
	case *types.Pointer:
		arr := types.Unalias(u.Elem()).Underlying().(*types.Array)
		if base.T == nil {
			fr.fail(x.Pos(), "index of array behind a location")
		}
		fr.safety("index", x, st, And(Le(IntLit(0), it), Lt(it, IntLit(arr.Len()))))
		return &Val{Loc: &Loc{Kind: LElem, Ref: base.T, Idx: it, Key: fr.w.elemHeap(arr.Elem()), Ty: arr.Elem()}, Ty: x.Type()}
	}
	fr.fail(x.Pos(), "IndexAddr on %s", x.X.Type())
	return nil
}

func (fr *frame) intIndex(idx *Val, at ssa.Instruction) *Term {
	if idx.T.Sort == SInt {
		return idx.T
	}
	return convertTerm(fr.w, idx.T, idx.Ty, types.Typ[types.Int])
}

func (fr *frame) lookup(x *ssa.Lookup, st *State) *Val {
	base := fr.get(x.X)
	switch u := types.Unalias(x.X.Type()).Underlying().(type) {
	case *types.Basic: // string index
		it := fr.intIndex(fr.get(x.Index), x)
		fr.safety("index", x, st, And(Le(IntLit(0), it), Lt(it, StrLen(base.T))))
		return fr.named(x, &Val{T: App("bytes", BV(8), StrArr(base.T), Idx(StrOff(base.T), it)), Ty: x.Type()})
	case *types.Map:
		mv, mh := fr.w.mapHeaps(u)
		k := fr.mapKey(fr.get(x.Index))
		has := Select(Select(st.heap.get(mh), base.T), k)
		val := Select(Select(st.heap.get(mv), base.T), k)
		zero := fr.w.zero(u.Elem())
		v := &Val{T: fr.vc.define(fr.sym(x)+"!v", Ite(has, val, zero)), Ty: u.Elem()}
		fr.assumeWF(v, st)
		if x.CommaOk {
			return &Val{Fs: []*Val{v, {T: fr.vc.define(fr.sym(x)+"!ok", has), Ty: types.Typ[types.Bool]}}, Ty: x.Type()}
		}
		return v
	}
	fr.fail(x.Pos(), "Lookup on %s", x.X.Type())
	return nil
}

func (fr *frame) mapKey(k *Val) *Term {
	if k.T == nil {
		panic(execErr{"compound map key"})
	}
	if k.T.Sort == SStr {
		return App("sv", "SV", k.T)
	}
	return k.T
}

func (fr *frame) mapUpdate(x *ssa.MapUpdate, st *State) {
	m := fr.get(x.Map)
	u := types.Unalias(x.Map.Type()).Underlying().(*types.Map)
	mv, mh := fr.w.mapHeaps(u)
	fr.safety("nilmap", x, st, Not(Eq(m.T, IntLit(0))))
	k := fr.mapKey(fr.get(x.Key))
	v := fr.get(x.Value)
	if v.T == nil {
		fr.fail(x.Pos(), "compound map value")
	}
	fr.frameCheck(mv, m.T, nil, st, x)
	h := st.heap
	st.heap = h.set(mv, Store(h.get(mv), m.T, Store(Select(h.get(mv), m.T), k, v.T)))
	h = st.heap
	st.heap = h.set(mh, Store(h.get(mh), m.T, Store(Select(h.get(mh), m.T), k, True)))
}

func (fr *frame) makeMap(x *ssa.MakeMap, st *State) *Val {
	u := types.Unalias(x.Type()).Underlying().(*types.Map)
	mv, mh := fr.w.mapHeaps(u)
	r := fr.newRef(fr.sym(x), st)
	_, ms, _ := fr.w.heapSort[mh].ArrParts()
	empty := App(fmt.Sprintf("(as const %s)", ms), ms, False)
	st.heap = st.heap.set(mh, Store(st.heap.get(mh), r, empty))
	_ = mv
	return &Val{T: r, Ty: x.Type()}
}

func (fr *frame) makeSlice(x *ssa.MakeSlice, st *State) *Val {
	u := types.Unalias(x.Type()).Underlying().(*types.Slice)
	ln := fr.intIndex(fr.get(x.Len), x)
	cp := fr.intIndex(fr.get(x.Cap), x)
	fr.safety("makeslice", x, st, And(Le(IntLit(0), ln), Le(ln, cp), Lt(cp, IntLit(maxLen))))
	a := fr.newArr(fr.sym(x), st)
	key := fr.w.elemHeap(u.Elem())
	es := fr.w.sortOf(u.Elem())
	zero := App(fmt.Sprintf("(as const %s)", ArrSort(SInt, es)), ArrSort(SInt, es), fr.w.zeroOfSort(es))
	st.heap = st.heap.set(key, Store(st.heap.get(key), a, zero))
	return &Val{T: MkSlice(a, IntLit(0), ln, cp), Ty: x.Type()}
}

func (fr *frame) slice(x *ssa.Slice, st *State) *Val {
	base := fr.get(x.X)
	var lo, hi, mx *Term
	if x.Low != nil {
		lo = fr.intIndex(fr.get(x.Low), x)
	} else {
		lo = IntLit(0)
	}
	switch u := types.Unalias(x.X.Type()).Underlying().(type) {
	case *types.Basic: // string
		if x.High != nil {
			hi = fr.intIndex(fr.get(x.High), x)
		} else {
			hi = StrLen(base.T)
		}
		fr.safety("slice", x, st, And(Le(IntLit(0), lo), Le(lo, hi), Le(hi, StrLen(base.T))))
		return &Val{T: MkStr(StrArr(base.T), Add(StrOff(base.T), lo), Sub(hi, lo)), Ty: x.Type()}
	case *types.Slice:
		if x.High != nil {
			hi = fr.intIndex(fr.get(x.High), x)
		} else {
			hi = SlLen(base.T)
		}
		if x.Max != nil {
			mx = fr.intIndex(fr.get(x.Max), x)
		} else {
			mx = SlCap(base.T)
		}
		fr.safety("slice", x, st, And(Le(IntLit(0), lo), Le(lo, hi), Le(hi, mx), Le(mx, SlCap(base.T))))
		res := MkSlice(SlArr(base.T), Add(SlOff(base.T), lo), Sub(hi, lo), Sub(mx, lo))
		if lv, ok := lo.IntVal(); ok && lv == 0 && !fr.isDiscovery {
			// a prefix view has the same elements (named fact for the fold congruences)
			key := fr.w.elemHeap(u.Elem())
			pe := fr.vc.prefEq(key)
			E := st.heap.get(key)
			fr.vc.assume(st.reach, App(pe, SBool, E, res, E, base.T, hi))
			fr.vc.assume(st.reach, App(pe, SBool, E, base.T, E, res, hi))
		}
		return &Val{T: res, Ty: x.Type()}
	case *types.Pointer:
		arr := types.Unalias(u.Elem()).Underlying().(*types.Array)
		n := IntLit(arr.Len())
		if x.High != nil {
			hi = fr.intIndex(fr.get(x.High), x)
		} else {
			hi = n
		}
		if x.Max != nil {
			mx = fr.intIndex(fr.get(x.Max), x)
		} else {
			mx = n
		}
		fr.safety("slice", x, st, And(Le(IntLit(0), lo), Le(lo, hi), Le(hi, mx), Le(mx, n)))
		return &Val{T: MkSlice(base.T, lo, Sub(hi, lo), Sub(mx, lo)), Ty: x.Type()}
	}
	fr.fail(x.Pos(), "Slice of %s", x.X.Type())
	return nil
}

// concat: string concatenation yields a fresh immutable array.
func (fr *frame) concat(a, b *Val, st *State, at ssa.Instruction) *Val {
	vc := fr.vc
	n := Add(StrLen(a.T), StrLen(b.T))
	if at != nil {
		fr.safety("overflow", at, st, Le(n, maxIntT))
	}
	// memory model: a string that exists is shorter than 2^48
	vc.assume(st.reach, Lt(n, IntLit(maxLen)))
	// the result is the term cat(a,b): its bytes are given by facts that are
	// instantiated for every occurrence when the query is built
	return &Val{T: CatStr(a.T, b.T), Ty: a.Ty}
}

// ---------------------------------------------------------------- conversions, interfaces

func (fr *frame) convert(x *ssa.Convert, st *State) *Val {
	v := fr.get(x.X)
	from, to := x.X.Type(), x.Type()
	fs, ts := fr.w.sortOf(from), fr.w.sortOf(to)
	switch {
	case fs == ts && fs != SSlice && fs != SStr:
		return &Val{T: v.T, Ty: to}
	case fs == SStr && ts == SStr:
		return &Val{T: v.T, Ty: to}
	case fs == SSlice && ts == SStr:
		// string([]byte): fresh immutable copy
		arr := fr.vc.fresh(fr.prefix+"str", SInt)
		res := MkStr(arr, IntLit(0), SlLen(v.T))
		key := fr.w.elemHeap(types.Typ[types.Uint8])
		i := Sym(freshBinder("i"), SInt)
		rb := App("bytes", BV(8), arr, i)
		fr.vc.assume(True, Forall([]Binder{{i.Op, SInt}}, Implies(And(Le(IntLit(0), i), Lt(i, SlLen(v.T))),
			Eq(rb, Select(Select(st.heap.get(key), SlArr(v.T)), Idx(SlOff(v.T), i)))), []*Term{rb}))
		return &Val{T: res, Ty: to}
	case fs == SStr && ts == SSlice:
		el := types.Unalias(to).Underlying().(*types.Slice).Elem()
		if fr.w.sortOf(el) != BV(8) {
			fr.fail(x.Pos(), "conversion string -> %s unsupported", to)
		}
		a := fr.newArr(fr.sym(x), st)
		key := fr.w.elemHeap(el)
		na := fr.vc.fresh(fr.prefix+"bytes", ArrSort(SInt, BV(8)))
		i := Sym(freshBinder("i"), SInt)
		fr.vc.assume(True, Forall([]Binder{{i.Op, SInt}}, Implies(And(Le(IntLit(0), i), Lt(i, StrLen(v.T))),
			Eq(Select(na, i), App("bytes", BV(8), StrArr(v.T), Idx(StrOff(v.T), i)))), []*Term{Select(na, i)}))
		st.heap = st.heap.set(key, Store(st.heap.get(key), a, na))
		return &Val{T: MkSlice(a, IntLit(0), StrLen(v.T), StrLen(v.T)), Ty: to}
	case ts == SStr && (fs.BVWidth() > 0 || fs == SInt):
		// string(rune/byte): one-to-four byte string, content unconstrained except ASCII
		arr := fr.vc.fresh(fr.prefix+"runestr", SInt)
		ln := fr.vc.fresh(fr.prefix+"runelen", SInt)
		fr.vc.assume(True, And(Le(IntLit(1), ln), Le(ln, IntLit(4))))
		if fs == BV(8) {
			fr.vc.assume(True, Implies(App("bvult", SBool, v.T, BVLitU(0x80, 8)), And(Eq(ln, IntLit(1)), Eq(App("bytes", BV(8), arr, IntLit(0)), v.T))))
		}
		return &Val{T: MkStr(arr, IntLit(0), ln), Ty: to}
	}
	if v.T == nil {
		fr.fail(x.Pos(), "conversion of compound value")
	}
	t := convertTerm(fr.w, v.T, from, to)
	fr.bridgeFacts(t)
	return &Val{T: t, Ty: to}
}

// bridgeFacts instantiates the round-trip axioms of the int<->bv bridges.
func (fr *frame) bridgeFacts(t *Term) {
	vc := fr.vc
	if len(t.Args) != 1 {
		return
	}
	a := t.Args[0]
	var wd int
	switch {
	case strings.HasPrefix(t.Op, "i2bv"):
		fmt.Sscanf(t.Op, "i2bv%d", &wd)
		lo := BigIntLit(pow2neg(wd - 1))
		hi := BigIntLit(pow2(wd - 1))
		uhi := BigIntLit(pow2(wd))
		vc.assume(True, Implies(And(Le(lo, a), Lt(a, hi)), Eq(App(fmt.Sprintf("bv2is%d", wd), SInt, t), a)))
		vc.assume(True, Implies(And(Le(IntLit(0), a), Lt(a, uhi)), Eq(App(fmt.Sprintf("bv2iu%d", wd), SInt, t), a)))
	case strings.HasPrefix(t.Op, "bv2is"):
		fmt.Sscanf(t.Op, "bv2is%d", &wd)
		vc.assume(True, And(Le(BigIntLit(pow2neg(wd-1)), t), Lt(t, BigIntLit(pow2(wd-1)))))
		vc.assume(True, Eq(App(fmt.Sprintf("i2bv%d", wd), BV(wd), t), a))
		vc.assume(True, Eq(Ge(t, IntLit(0)), App("bvsge", SBool, a, BVLitU(0, wd))))
	case strings.HasPrefix(t.Op, "bv2iu"):
		fmt.Sscanf(t.Op, "bv2iu%d", &wd)
		vc.assume(True, And(Le(IntLit(0), t), Lt(t, BigIntLit(pow2(wd)))))
		vc.assume(True, Eq(App(fmt.Sprintf("i2bv%d", wd), BV(wd), t), a))
		vc.assume(True, Eq(Eq(t, IntLit(0)), Eq(a, BVLitU(0, wd))))
	}
}

func (fr *frame) makeInterface(x *ssa.MakeInterface, st *State) *Val {
	v := fr.get(x.X)
	tag := IntLit(int64(fr.w.tagOf(x.X.Type())))
	if v.T == nil {
		// a struct value: the box is opaque (fresh id), only the dynamic type is tracked
		id := fr.vc.fresh(fr.sym(x)+"!box", SInt)
		fr.vc.assume(True, Gt(id, IntLit(0)))
		return &Val{T: MkIface(tag, id), Ty: x.Type()}
	}
	switch v.T.Sort {
	case SInt:
		if _, ok := types.Unalias(x.X.Type()).Underlying().(*types.Pointer); ok {
			return &Val{T: MkIface(tag, v.T), Ty: x.Type()}
		}
	}
	// boxed value: canonical box id = injective function of the content
	s := v.T.Sort
	content := v.T
	if s == SStr {
		content = App("sv", "SV", v.T)
		s = "SV"
	}
	bn := "box!" + smtName(string(s))
	un := "unbox!" + smtName(string(s))
	fr.w.boxSorts[s] = true
	b := App(bn, SInt, content)
	fr.vc.assume(True, Eq(App(un, s, b), content))
	if v.T.Sort == SStr {
		// keep the concrete string retrievable
		fr.vc.assume(True, Eq(App("unboxstr", SStr, b), v.T))
	}
	return &Val{T: MkIface(tag, b), Ty: x.Type()}
}

func (fr *frame) typeAssert(x *ssa.TypeAssert, st *State) *Val {
	v := fr.get(x.X)
	boolT := types.Typ[types.Bool]
	if _, isIface := types.Unalias(x.AssertedType).Underlying().(*types.Interface); isIface {
		// interface-to-interface: succeeds iff non-nil (all modelled dynamic types implement the repo interfaces they are used with)
		ok := Not(Eq(IfTag(v.T), IntLit(0)))
		if x.CommaOk {
			return &Val{Fs: []*Val{{T: v.T, Ty: x.AssertedType}, {T: ok, Ty: boolT}}, Ty: x.Type()}
		}
		fr.safety("assert", x, st, ok)
		return &Val{T: v.T, Ty: x.AssertedType}
	}
	tag := IntLit(int64(fr.w.tagOf(x.AssertedType)))
	ok := fr.vc.define(fr.sym(x)+"!ok", Eq(IfTag(v.T), tag))
	payload := fr.unbox(v.T, x.AssertedType, x)
	zero := fr.zeroVal(x.AssertedType)
	if x.CommaOk {
		var res *Val
		if payload.T != nil {
			res = &Val{T: fr.vc.define(fr.sym(x)+"!v", Ite(ok, payload.T, zero.T)), Ty: x.AssertedType}
			fr.assumeWF(res, st)
		} else {
			res = payload
		}
		return &Val{Fs: []*Val{res, {T: ok, Ty: boolT}}, Ty: x.Type()}
	}
	fr.safety("assert", x, st, ok)
	return payload
}

func (fr *frame) unbox(iface *Term, t types.Type, at ssa.Instruction) *Val {
	if _, ok := types.Unalias(t).Underlying().(*types.Pointer); ok {
		return &Val{T: IfRef(iface), Ty: t}
	}
	s := fr.w.sortOf(t)
	if s == "" {
		fr.fail(at.Pos(), "unboxing compound type %s", t)
	}
	if s == SStr {
		return &Val{T: App("unboxstr", SStr, IfRef(iface)), Ty: t}
	}
	un := "unbox!" + smtName(string(s))
	fr.w.boxSorts[s] = true
	return &Val{T: App(un, s, IfRef(iface)), Ty: t}
}

// ---------------------------------------------------------------- range over strings

func (fr *frame) rangeInit(x *ssa.Range, st *State) *Val {
	if !isString(x.X.Type()) {
		fr.fail(x.Pos(), "range over %s is outside the subset", x.X.Type())
	}
	key := fr.w.regHeap("I:"+relName(fr.fn)+"."+x.Name(), SInt, types.Typ[types.Int])
	st.heap = st.heap.set(key, IntLit(0))
	return &Val{It: &rangeIter{key: key, x: fr.get(x.X), isStr: true}, Ty: x.Type()}
}

func (fr *frame) rangeNext(x *ssa.Next, st *State) *Val {
	it := fr.get(x.Iter).It
	if it == nil || !it.isStr {
		fr.fail(x.Pos(), "next on unsupported iterator")
	}
	vc := fr.vc
	s := it.x.T
	pos := st.heap.get(it.key)
	vc.assume(st.reach, And(Le(IntLit(0), pos), Le(pos, StrLen(s))))
	ok := vc.define(fr.sym(x)+"!ok", Lt(pos, StrLen(s)))
	b := App("bytes", BV(8), StrArr(s), Idx(StrOff(s), pos))
	r := vc.fresh(fr.sym(x)+"!rune", BV(32))
	wdt := vc.fresh(fr.sym(x)+"!w", SInt)
	ascii := App("bvult", SBool, b, BVLitU(0x80, 8))
	vc.assume(True, Implies(ascii, And(Eq(r, App("(_ zero_extend 24)", BV(32), b)), Eq(wdt, IntLit(1)))))
	vc.assume(True, Implies(Not(ascii), And(App("bvuge", SBool, r, BVLitU(0x80, 32)), App("bvule", SBool, r, BVLitU(0x10FFFF, 32)))))
	vc.assume(True, And(Le(IntLit(1), wdt), Le(wdt, IntLit(4))))
	vc.assume(True, Implies(ok, Le(Add(pos, wdt), StrLen(s))))
	st.heap = st.heap.set(it.key, Ite(ok, Add(pos, wdt), pos))
	return &Val{Fs: []*Val{{T: ok, Ty: types.Typ[types.Bool]}, {T: pos, Ty: types.Typ[types.Int]}, {T: r, Ty: types.Typ[types.Int32]}}, Ty: x.Type()}
}

// allocEscapes: the address of the local is used for anything but direct
// loads and stores (closures that are only called or deferred do not count).
func allocEscapes(x *ssa.Alloc) bool {
	for _, ref := range *x.Referrers() {
		switch r := ref.(type) {
		case *ssa.Store:
			if r.Val == x {
				return true
			}
		case *ssa.UnOp, *ssa.DebugRef:
		case *ssa.MakeClosure:
			for _, u := range *r.Referrers() {
				switch c := u.(type) {
				case *ssa.Call:
					if c.Call.Value != r {
						return true
					}
				case *ssa.Defer:
					if c.Call.Value != r {
						return true
					}
				case *ssa.DebugRef:
				default:
					return true
				}
			}
		default:
			return true
		}
	}
	return false
}
