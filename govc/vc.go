package main

// VC: accumulated facts and obligations for one function or lemma; heap model.

import (
	"fmt"
	"go/types"
	"math/big"
	"sort"
	"strings"
	"sync"
)

type Obl struct {
	Name      string
	Props     []string
	Kind      string // safety, pre, post, inv-init, inv-step, frame, lemma, cover, dec, own, refine
	Guard     *Term
	Goal      *Term
	NFacts    int
	ExpectSat bool
	Pos       string
	Func      string
	Extra     []*Term
	Src       string // contract clause text, if any
}

type VC struct {
	w      *World
	name   string
	facts  []*Term
	obls   []*Obl
	decl   map[string]string // symbol -> declaration line
	declO  []string
	used   *Usage
	nfresh int
	reveal map[string]bool
	fuel   int
	notes  []string // assumptions made while generating (havocked calls, …)
	names  map[string]int
	stamp  int
	errs   []string
	trig   map[string]bool
	noCong map[string]bool
	replay *replayInfo
	nlocal int
	localKeys []string
	once   sync.Once
	congAx []string
}

func NewVC(w *World, name string) *VC {
	return &VC{w: w, name: name, decl: map[string]string{}, used: NewUsage(), reveal: map[string]bool{}, fuel: 1,
		names: map[string]int{}, trig: map[string]bool{}}
}

func (vc *VC) declare(name string, s Sort) *Term {
	if _, ok := vc.decl[name]; !ok {
		vc.decl[name] = fmt.Sprintf("(declare-const %s %s)", name, s)
		vc.declO = append(vc.declO, name)
	}
	return Sym(name, s)
}

func (vc *VC) declareFun(name string, args []Sort, res Sort) {
	if _, ok := vc.decl[name]; !ok {
		var as []string
		for _, a := range args {
			as = append(as, string(a))
		}
		vc.decl[name] = fmt.Sprintf("(declare-fun %s (%s) %s)", name, strings.Join(as, " "), res)
		vc.declO = append(vc.declO, name)
	}
}

func (vc *VC) fresh(base string, s Sort) *Term {
	vc.nfresh++
	return vc.declare(fmt.Sprintf("%s!%d", smtName(base), vc.nfresh), s)
}

// define introduces a named constant equal to t.
func (vc *VC) define(name string, t *Term) *Term {
	if len(t.Args) == 0 && len(t.Vars) == 0 {
		return t // already atomic
	}
	n := smtName(name)
	if _, ok := vc.decl[n]; ok {
		vc.nfresh++
		n = fmt.Sprintf("%s!%d", n, vc.nfresh)
	}
	c := vc.declare(n, t.Sort)
	vc.facts = append(vc.facts, App("=", SBool, c, t))
	return c
}

func (vc *VC) assume(guard, fact *Term) {
	f := Implies(guard, fact)
	if f.Op == "true" {
		return
	}
	vc.facts = append(vc.facts, f)
}

func (vc *VC) oblige(kind, name string, props []string, guard, goal *Term, pos string) *Obl {
	if goal.Op == "true" || guard.Op == "false" {
		return nil
	}
	vc.names[name]++
	if n := vc.names[name]; n > 1 {
		name = fmt.Sprintf("%s#%d", name, n)
	}
	o := &Obl{Name: name, Props: props, Kind: kind, Guard: guard, Goal: goal, NFacts: len(vc.facts), Pos: pos, Func: vc.name}
	vc.obls = append(vc.obls, o)
	return o
}

func (vc *VC) note(f string, a ...any) {
	s := fmt.Sprintf(f, a...)
	for _, n := range vc.notes {
		if n == s {
			return
		}
	}
	vc.notes = append(vc.notes, s)
}

func (vc *VC) errorf(f string, a ...any) { vc.errs = append(vc.errs, fmt.Sprintf(f, a...)) }

// ---------------------------------------------------------------- heap

type Heap struct {
	vc     *VC
	m      map[string]*Term
	base   func(key string) *Term
	memo   map[string]*Term
	writes map[string]int // key -> stamp of last write ("*" = everything)
}

func (vc *VC) entryHeap(version string) *Heap {
	h := &Heap{vc: vc, m: map[string]*Term{}, memo: map[string]*Term{}, writes: map[string]int{}}
	h.base = func(key string) *Term {
		s, ok := vc.w.heapSort[key]
		if !ok {
			panic("unregistered heap key " + key)
		}
		return vc.declare(heapSym(key, version), s)
	}
	return h
}

func (h *Heap) get(key string) *Term {
	if t, ok := h.m[key]; ok {
		return t
	}
	if t, ok := h.memo[key]; ok {
		return t
	}
	t := h.base(key)
	h.memo[key] = t
	return t
}

func (h *Heap) set(key string, t *Term) *Heap {
	if want := h.vc.w.heapSort[key]; want != t.Sort {
		panic(fmt.Sprintf("heap set %s: sort %s, want %s", key, t.Sort, want))
	}
	n := &Heap{vc: h.vc, m: map[string]*Term{}, base: h.get, memo: map[string]*Term{}, writes: map[string]int{}}
	for k, v := range h.writes {
		n.writes[k] = v
	}
	h.vc.stamp++
	n.writes[key] = h.vc.stamp
	n.m[key] = t
	if strings.HasPrefix(key, "E:") {
		h.vc.noteSucc(key, t, h.get(key))
	}
	return n
}

// havocAll returns a heap where every key is fresh (allocation only grows).
func (h *Heap) havocAll(tag string) *Heap {
	vc := h.vc
	vc.nfresh++
	ver := fmt.Sprintf("%s%d", tag, vc.nfresh)
	n := &Heap{vc: vc, m: map[string]*Term{}, memo: map[string]*Term{}, writes: map[string]int{}}
	for k, v := range h.writes {
		n.writes[k] = v
	}
	vc.stamp++
	n.writes["*"] = vc.stamp
	n.base = func(key string) *Term {
		return vc.declare(heapSym(key, ver), vc.w.heapSort[key])
	}
	// private local cells are unreachable for whatever caused the havoc
	for _, k := range vc.localKeys {
		n.m[k] = h.get(k)
	}
	return n
}

// havocKeys returns a heap where the given keys are fresh.
func (h *Heap) havocKeys(keys []string, tag string) *Heap {
	n := h
	for _, k := range keys {
		n = n.set(k, h.vc.fresh("H"+tag+"!"+k, h.vc.w.heapSort[k]))
	}
	return n
}

// mergeHeaps builds the heap at a join: key-wise ite over the incoming edges.
func mergeHeaps(vc *VC, name string, conds []*Term, hs []*Heap) *Heap {
	if len(hs) == 1 {
		return hs[0]
	}
	n := &Heap{vc: vc, m: map[string]*Term{}, memo: map[string]*Term{}, writes: map[string]int{}}
	for _, h := range hs {
		for k, v := range h.writes {
			if v > n.writes[k] {
				n.writes[k] = v
			}
		}
	}
	n.base = func(key string) *Term {
		ts := make([]*Term, len(hs))
		same := true
		for i, h := range hs {
			ts[i] = h.get(key)
			if i > 0 && ts[i] != ts[0] && !termEq(ts[i], ts[0]) {
				same = false
			}
		}
		if same {
			return ts[0]
		}
		t := ts[len(ts)-1]
		for i := len(ts) - 2; i >= 0; i-- {
			t = Ite(conds[i], ts[i], t)
		}
		return vc.define(name+"!"+key, t)
	}
	return n
}

func (h *Heap) writtenSince(stamp int) (keys []string, all bool) {
	for k, v := range h.writes {
		if v > stamp {
			if k == "*" {
				all = true
			} else {
				keys = append(keys, k)
			}
		}
	}
	sort.Strings(keys)
	return
}

// ---------------------------------------------------------------- well-formedness facts

const maxLen = int64(1) << 48

func (vc *VC) wfTerm(t *Term, ty types.Type, alloc, allocA *Term) *Term {
	switch t.Sort {
	case SStr:
		return And(Le(IntLit(0), StrOff(t)), Le(IntLit(0), StrLen(t)), Lt(Add(StrOff(t), StrLen(t)), IntLit(maxLen)))
	case SSlice:
		cs := []*Term{Le(IntLit(0), SlOff(t)), Le(IntLit(0), SlLen(t)), Le(SlLen(t), SlCap(t)), Lt(Add(SlOff(t), SlCap(t)), IntLit(maxLen)),
			Ge(SlArr(t), IntLit(0)),
			Implies(Eq(SlArr(t), IntLit(0)), And(Eq(SlLen(t), IntLit(0)), Eq(SlCap(t), IntLit(0)), Eq(SlOff(t), IntLit(0))))}
		if allocA != nil {
			cs = append(cs, Or(Eq(SlArr(t), IntLit(0)), Select(allocA, SlArr(t))))
		}
		return And(cs...)
	case SInt:
		if ty != nil {
			switch types.Unalias(ty).Underlying().(type) {
			case *types.Pointer, *types.Map:
				if alloc != nil {
					return And(Ge(t, IntLit(0)), Or(Eq(t, IntLit(0)), Select(alloc, t)))
				}
				return Ge(t, IntLit(0))
			case *types.Basic:
				return And(Le(minIntT, t), Le(t, maxIntT))
			}
		}
	case SIface:
		cs := []*Term{Ge(IfTag(t), IntLit(0)), Implies(Eq(IfTag(t), IntLit(0)), Eq(IfRef(t), IntLit(0)))}
		return And(cs...)
	}
	return True
}

var (
	minIntT = BigIntLit(new(big.Int).Neg(new(big.Int).Lsh(big.NewInt(1), 63)))
	maxIntT = BigIntLit(new(big.Int).Sub(new(big.Int).Lsh(big.NewInt(1), 63), big.NewInt(1)))
)
