package main

// Safety sweep: every function of the given packages is checked for
// crash-freedom obligations (with whatever contracts exist).

import (
	"fmt"
	"go/types"
	"sort"
	"strings"

	"golang.org/x/tools/go/ssa"
)

func (w *World) allFuncs(pkgPath string) []*ssa.Function {
	sp := w.spkgs[pkgPath]
	if sp == nil {
		return nil
	}
	seen := map[*ssa.Function]bool{}
	var out []*ssa.Function
	var add func(fn *ssa.Function)
	add = func(fn *ssa.Function) {
		if fn == nil || seen[fn] || len(fn.Blocks) == 0 || fn.Synthetic != "" {
			return
		}
		seen[fn] = true
		out = append(out, fn)
		for _, a := range fn.AnonFuncs {
			add(a)
		}
	}
	for _, m := range sp.Members {
		switch m := m.(type) {
		case *ssa.Function:
			add(m)
		case *ssa.Type:
			for _, t := range []types.Type{m.Type(), types.NewPointer(m.Type())} {
				ms := w.prog.MethodSets.MethodSet(t)
				for i := 0; i < ms.Len(); i++ {
					add(w.prog.MethodValue(ms.At(i)))
				}
			}
		}
	}
	sort.Slice(out, func(i, j int) bool { return out[i].Pos() < out[j].Pos() })
	return out
}

var sweepAll = false

func runSweep(w *World, pkgs []string, timeout int) {
	if len(pkgs) > 0 && pkgs[0] == "all" {
		sweepAll = true
		pkgs = pkgs[1:]
	}
	if len(pkgs) == 0 {
		pkgs = []string{"rules", "filterutil", "lookup", "filterlist", "."}
	}
	r := NewRunner(timeout, false)
	defer r.Close()
	tot, bad, unsup := 0, 0, 0
	for _, p := range pkgs {
		path := modPath
		if p != "." && p != "" {
			path = modPath + "/" + p
		}
		for _, fn := range w.allFuncs(path) {
			if fn.Parent() != nil && w.contractFor(fn) == nil {
				continue // anonymous functions without a contract are inlined into their parents
			}
			if (strings.HasPrefix(fn.Name(), "init#") || fn.Name() == "init") && fn.Parent() == nil {
				continue // package initialisation runs once at start-up and is exercised by every test
			}
			key := funcKey(fn)
			if fc := w.contractFor(fn); fc != nil {
				for k, c2 := range w.cons.Funcs {
					if c2 == fc {
						key = k
					}
				}
			}
			vc, err := w.VerifyFunc(key)
			if err != nil {
				fmt.Printf("UNSUPPORTED %-50s %v\n", relName(fn), err)
				unsup++
				continue
			}
			for _, e := range vc.errs {
				fmt.Printf("CONTRACT-ERROR %s: %s\n", relName(fn), e)
			}
			var items []vcObl
			for _, o := range vc.obls {
				if o.Kind == "safety" || (sweepAll && o.Kind != "cover") {
					items = append(items, vcObl{vc, o})
				}
			}
			if fc := w.contractFor(fn); sweepAll && fc != nil && fc.Opts["refines"] != "" {
				for k, c2 := range w.cons.Funcs {
					if c2 == fc {
						if rvc, err := w.VerifyRefinement(k); err != nil {
							fmt.Printf("CONTRACT-ERROR %s: %v\n", relName(fn), err)
						} else {
							for _, o := range rvc.obls {
								items = append(items, vcObl{rvc, o})
							}
						}
					}
				}
			}
			rs := r.SolveAll(items)
			nb := 0
			var names []string
			for _, x := range rs {
				if x.Status != "discharged" {
					nb++
					names = append(names, fmt.Sprintf("%s[%s %s]", strings.Replace(strings.TrimPrefix(x.Obl.Name, "safety/"+relName(fn)+"/"), relName(fn), "~", 1), x.Status, x.Obl.Pos))
				}
			}
			tot += len(rs)
			bad += nb
			st := "ok"
			if nb > 0 {
				st = "FAIL"
			}
			fmt.Printf("%-5s %-55s %3d safety obligations, %d open %s\n", st, relName(fn), len(rs), nb, strings.Join(names, " "))
		}
	}
	fmt.Printf("sweep: %d obligations, %d open, %d functions unsupported\n", tot, bad, unsup)
}
