package main

// Property checks: work-set selection, discharge, known findings, evidence.

import (
	"encoding/json"
	"fmt"
	"go/types"
	"os"
	"os/exec"
	"path/filepath"
	"sort"
	"strconv"
	"strings"
	"time"
)

type knownFinding struct {
	Prop, Obl, Witness, Text string
}

func loadKnown() (kf []knownFinding) {
	b, err := os.ReadFile(filepath.Join(verifDir(), "known_findings.txt"))
	if err != nil {
		return nil
	}
	for _, ln := range strings.Split(string(b), "\n") {
		ln = strings.TrimSpace(ln)
		if !strings.HasPrefix(ln, "finding:") {
			continue
		}
		f := knownFinding{Text: ln}
		for _, tok := range strings.Fields(ln) {
			switch {
			case strings.HasPrefix(tok, "property="):
				f.Prop = tok[len("property="):]
			case strings.HasPrefix(tok, "obligation="):
				f.Obl = tok[len("obligation="):]
			case strings.HasPrefix(tok, "witness="):
				f.Witness = tok[len("witness="):]
			}
		}
		kf = append(kf, f)
	}
	return
}

// propDeps: a property whose statement is built on another one also runs the
// obligations filed under that one (the DNS answer is only right if Match,
// the precedence rules and $badfilter handling are).
var propDeps = map[string][]string{
	"C02": {"C01", "C04", "C06", "C07", "C08", "C11"}, // the reported network rules come from the network engine's lookup
	"C01": {"C04", "C11"},
	"C19": {"C04", "C11"}, // "every rule they return truly matches": what an index retrieves is the line that was scanned there
	"C13": {"C04", "C11"}, // purity of a query includes the frames of the whole Match chain and of retrieval
	"C16": {"C06"}, // the cosmetic option is derived from the verdict
	// "however the rules are split across lists": the verdict is computed from what the lookup returns,
	// and the lookup from what the scanner delivers
	"C06": {"C01", "C04", "C11"},
	"C09": {"C10"}, // "the same response code / record type / value": what the parser made of the rule texts
	"C15": {"C11"}, // "for every set of cosmetic rules": the engine is filled from the storage scanner
	"C18": {"C11"}, // the DNS engine finds a hosts line again through its storage index
}

func hasProp(ps []string, p string) bool {
	for _, x := range ps {
		if x == p {
			return true
		}
		for _, d := range propDeps[p] {
			if x == d {
				return true
			}
		}
	}
	return false
}

func (fc *FuncContract) mentions(p string) bool {
	if hasProp(fc.Props, p) {
		return true
	}
	if hasProp(strings.Fields(fc.Opts["safety"]), p) {
		return true
	}
	for _, cs := range [][]*Clause{fc.Requires, fc.Ensures, fc.Invs, fc.Decs} {
		for _, c := range cs {
			if hasProp(c.Props, p) {
				return true
			}
		}
	}
	return false
}

type Evidence struct {
	PropertyID  string         `json:"property_id"`
	Tier        string         `json:"tier"`
	Seed        int            `json:"seed"`
	Level       string         `json:"level"`
	Coverage    map[string]any `json:"coverage"`
	Assumptions []string       `json:"assumptions"`
	WallS       float64        `json:"wall_s"`
	Violations  int            `json:"violations"`
}

var generalAssumptions = []string{
	"sequential semantics: goroutines and the Go memory model are not modelled; mutex operations only update ghost lock state (used by the C14 obligations), mutual exclusion itself is assumed of sync.Mutex/RWMutex",
	"Go int is a mathematical integer; every int + - * gets an overflow obligation (safety/…/overflow) in the functions under a safety contract",
	"len <= cap < 2^48 for every string and slice; memory exhaustion and GC are not modelled",
	"bodies of functions outside /repo are replaced by the assumed contracts of /verif/contracts/stdlib.contracts (or havocked when there is none)",
	"the SSA form produced by golang.org/x/tools/go/ssa v0.29.0 and the SMT solvers are trusted: an unsat from z3 5.1.0 or cvc5 1.0 discharges an obligation, an unsat from z3 4.8.12 only together with one of them (a conservative rule kept from an episode that turned out to be an inconsistency of this generator's own prelude, see DESIGN.md)",
	"the background theory of every query (string values, concatenation, extensionality; govc/world.go) is consistent: argued from its intended model, not machine-checked; cover/prelude/pre is a smoke test only",
	"interface type assertions to repo interfaces succeed for every non-nil value (only implementing types are boxed)",
}

func runCheck(repo, prop, tier string) int {
	t0 := time.Now()
	seed, _ := strconv.Atoi(os.Getenv("VERIF_SEED"))
	if prop == "" {
		fmt.Fprintln(os.Stderr, "check: --prop required")
		return 2
	}
	evPath := filepath.Join(verifDir(), "evidence", prop+".json")
	os.MkdirAll(filepath.Dir(evPath), 0o755)
	os.Remove(evPath)
	w, err := LoadWorld(repo)
	if err != nil {
		fmt.Fprintln(os.Stderr, "HARNESS-ERROR:", err)
		return 2
	}
	timeout := 15
	if tier == "thorough" {
		timeout = 60
	}
	type unverif struct {
		key, why string
		fc       *FuncContract
	}
	var unverifiable []unverif
	var items []vcObl
	var funcs []string
	var harness []string
	notes := map[string]bool{}
	nvc := 0
	keys := append([]string{}, w.cons.FuncOrd...)
	if prop == "C12" {
		// the crash-freedom sweep covers every function of the core packages,
		// with or without a contract
		have := map[string]bool{}
		for _, k := range keys {
			have[k] = true
		}
		for _, p := range []string{"rules", "filterutil", "lookup", "filterlist", ""} {
			path := modPath
			if p != "" {
				path += "/" + p
			}
			for _, fn := range w.allFuncs(path) {
				if fn.Parent() != nil || fn.Name() == "init" || strings.HasPrefix(fn.Name(), "init#") {
					continue
				}
				if w.contractFor(fn) == nil && !have[funcKey(fn)] {
					keys = append(keys, funcKey(fn))
					have[funcKey(fn)] = true
				}
			}
		}
	}
	lockMode := prop == "C14"
	if lockMode {
		// lock discipline: every function reachable from the query entry points
		keys = nil
		for _, fn := range w.queryReachable() {
			if fn.Parent() != nil {
				continue // closures are executed inline in their parents
			}
			k := funcKey(fn)
			if fc := w.contractFor(fn); fc != nil {
				for k2, c2 := range w.cons.Funcs {
					if c2 == fc {
						k = k2
					}
				}
			}
			keys = append(keys, k)
		}
		for _, k := range w.cons.FuncOrd {
			if fc := w.cons.Funcs[k]; fc != nil && !fc.Extern && fc.mentions("C14") {
				dup := false
				for _, k2 := range keys {
					if k2 == k {
						dup = true
					}
				}
				if !dup {
					keys = append(keys, k)
				}
			}
		}
		sort.Strings(keys)
	}
	for _, key := range keys {
		fc := w.cons.Funcs[key]
		if lockMode {
			if fc == nil {
				fc = &FuncContract{Key: key, Opts: map[string]string{}}
			}
		} else if fc == nil {
			fc = &FuncContract{Key: key, Opts: map[string]string{}}
		} else if prop == "C12" && !fc.Extern && !fc.Trusted && fc.Opts["interface"] == "" &&
			(fc.mentions(prop) || !strings.HasPrefix(fc.Pkg, modPath+"/proxy")) {
			// included below: default safety obligations carry C12 (core packages)
		} else if fc.Extern || fc.Trusted || !fc.mentions(prop) {
			continue
		}
		if fc.Extern || fc.Trusted {
			continue
		}
		if strings.Contains(key, "::") && !strings.HasPrefix(key, modPath) {
			continue
		}
		if w.findFunc(key) == nil {
			// interface method contracts have no body
			if fc.Opts["interface"] != "" {
				continue
			}
			harness = append(harness, fmt.Sprintf("contract for %s cannot be bound: no such function", key))
			continue
		}
		vc, err := w.VerifyFunc(key)
		if err != nil {
			// the function left the verifiable subset: every obligation of its
			// contract for this property is undischarged
			harness = append(harness, err.Error())
			unverifiable = append(unverifiable, unverif{key, err.Error(), fc})
			continue
		}
		if len(vc.errs) > 0 {
			unverifiable = append(unverifiable, unverif{key, strings.Join(vc.errs, "; "), fc})
		}
		nvc++
		if fc.Opts["refines"] != "" && !lockMode {
			rvc, err := w.VerifyRefinement(key)
			if err != nil {
				harness = append(harness, err.Error())
			} else {
				for _, o := range rvc.obls {
					items = append(items, vcObl{rvc, o})
				}
			}
		}
		harness = append(harness, vc.errs...)
		for _, n := range vc.notes {
			notes[n] = true
		}
		funcs = append(funcs, vc.name)
		for _, o := range vc.obls {
			if lockMode {
				// the lock discipline, the frames (no write to shared state that no guard covers) and
				// whatever a contract files under C14 explicitly (ownership established by constructors)
				if o.Kind == "lock" || o.Kind == "frame" || hasProp(o.Props, "C14") {
					items = append(items, vcObl{vc, o})
				}
				continue
			}
			if o.Kind == "lock" {
				continue
			}
			if o.Kind == "cover" || hasProp(o.Props, prop) {
				items = append(items, vcObl{vc, o})
			}
		}
	}
	if lockMode {
		// what a query entry point may write besides fresh memory must be guarded or thread-local
		evc := NewVC(w, "query-frames")
		for _, e := range queryEntries {
			key := modPath + e
			fc := w.cons.Funcs[key]
			name := key[strings.Index(key, "::")+2:]
			if fc == nil || !fc.HasAssigns {
				evc.oblige("lock", "lock/"+name+"/frame-specified", []string{"C14"}, True, False, "")
				continue
			}
			for _, a := range fc.Assigns {
				ok := false
				if strings.HasPrefix(a, "heap ") {
					ok = w.sharedWriteAllowed(strings.TrimSpace(a[5:]))
				}
				if !ok {
					evc.oblige("lock", "lock/"+name+"/shared-write:"+a, []string{"C14"}, True, False, "")
				} else {
					evc.oblige("lock", "lock/"+name+"/shared-write:"+a, []string{"C14"}, True, Eq(IntLit(0), Sub(IntLit(1), IntLit(1))), "")
				}
			}
		}
		for _, o := range evc.obls {
			items = append(items, vcObl{evc, o})
		}
	}
	for _, lm := range w.cons.Lemmas {
		if !hasProp(lm.Props, prop) || lm.Axiom {
			continue
		}
		vc, err := w.VerifyLemma(lm)
		if err != nil {
			harness = append(harness, err.Error())
			continue
		}
		harness = append(harness, vc.errs...)
		for _, o := range vc.obls {
			items = append(items, vcObl{vc, o})
		}
	}
	for _, c := range w.cons.Congs {
		if !hasProp(c.Props, prop) {
			continue
		}
		vc, err := w.VerifyCongruence(c)
		if err != nil {
			harness = append(harness, err.Error())
			continue
		}
		for _, o := range vc.obls {
			items = append(items, vcObl{vc, o})
		}
	}
	{
		// smoke test for the axiomatisation itself: the prelude, the string-extensionality axiom and every
		// assumed axiom of the contract files together must not be refutable (run with the full budget;
		// "unknown" is the expected answer, "unsat" means that everything would be provable)
		pvc := NewVC(w, "prelude")
		pvc.trig["strext"] = true
		for _, lm := range w.cons.Lemmas {
			if !lm.Axiom {
				continue
			}
			if ax, e := w.lemmaAxiom(lm.Label, pvc.used); e == nil {
				pvc.assume(True, ax)
			}
		}
		if o := pvc.oblige("cover", "cover/prelude/pre", []string{prop}, True, False, ""); o != nil {
			o.ExpectSat = true
			items = append(items, vcObl{pvc, o})
		}
	}
	if len(harness) > 0 {
		for _, h := range harness {
			fmt.Println("HARNESS-ERROR:", h)
		}
	}
	r := NewRunner(timeout, tier == "quick")
	r.both = tier == "thorough"
	defer r.Close()
	results := r.SolveAll(items)
	// undecided obligations get reseeded retries with a longer budget
	{
		var retry []int
		isKnownObl := map[string]bool{}
		for _, k := range loadKnown() {
			if k.Prop == prop {
				isKnownObl[k.Obl] = true
			}
		}
		for i, x := range results {
			if x.Status == "undecided" && !x.Obl.ExpectSat && !isKnownObl[x.Obl.Name] {
				retry = append(retry, i)
			}
		}
		if len(retry) > 0 {
			r2 := NewRunner(timeout*3, false)
			r2.reseed = true
			if os.Getenv("VERIF_KEEP") != "" {
				r2.keep = true
				fmt.Println("DEBUG retry queries in", r2.workdir)
			}
			var sub []vcObl
			for _, i := range retry {
				sub = append(sub, items[i])
			}
			rs := r2.SolveAll(sub)
			for k, i := range retry {
				results[i] = rs[k]
			}
			r2.Close()
		}
	}
	if os.Getenv("VERIF_DEBUG") != "" {
		for _, x := range results {
			fmt.Printf("DEBUG %-10s %-70s %s %.2fs\n", x.Status, x.Obl.Name, x.Solver, x.Time)
		}
	}
	known := loadKnown()
	var violations, knownHit, samples []string
	var undis []map[string]any
	nObl, nDis, nCover, nCoverSat := 0, 0, 0, 0
	vacuous := false
	for _, x := range results {
		if x.Obl.ExpectSat {
			nCover++
			if x.Status == "discharged" {
				nCoverSat++
			} else if x.Status == "failed" && strings.HasSuffix(x.Obl.Name, "/pre") {
				vacuous = true
				fmt.Printf("HARNESS-ERROR: vacuity: %s is unsatisfiable (contradictory precondition or unreachable return)\n", x.Obl.Name)
			}
			continue
		}
		nObl++
		if len(samples) < 12 {
			samples = append(samples, x.Obl.Name)
		}
		if x.Status == "discharged" {
			nDis++
			continue
		}
		if x.Status == "error" {
			fmt.Printf("HARNESS-ERROR: %s: %v\n", x.Obl.Name, x.Raw)
			harness = append(harness, x.Obl.Name)
			continue
		}
		isKnown := false
		for _, k := range known {
			if k.Prop == prop && k.Obl == x.Obl.Name {
				isKnown = true
				knownHit = append(knownHit, x.Obl.Name)
				fmt.Printf("KNOWN-FINDING: property=%s %s\n", prop, strings.TrimSpace(strings.TrimPrefix(strings.TrimSpace(strings.TrimPrefix(k.Text, "finding:")), "property="+prop)))
			}
		}
		if isKnown {
			nObl-- // reported separately: neither proved nor a new violation
			continue
		}
		path, confirmed := writeReplay(w, prop, x)
		line := fmt.Sprintf("VIOLATION property=%s replay=%s", prop, path)
		if !confirmed {
			line += " no-failing-input-found"
		}
		fmt.Printf("  obligation %s %s (%s) at %s\n", x.Obl.Name, x.Status, x.Solver, x.Obl.Pos)
		fmt.Println(line)
		violations = append(violations, x.Obl.Name)
		undis = append(undis, map[string]any{"obligation": x.Obl.Name, "status": x.Status, "solver": x.Solver, "pos": x.Obl.Pos})
	}
	for _, u := range unverifiable {
		// report once per function: the contract can no longer be checked against the code
		name := "unverifiable/" + u.key[strings.Index(u.key, "::")+2:]
		nObl++
		dir := filepath.Join(verifDir(), "replays", prop)
		os.MkdirAll(dir, 0o755)
		path := filepath.Join(dir, sanitize(name)+".json")
		rec := map[string]any{"property": prop, "obligation": name, "status": "undischarged",
			"reason": "the contract of this function can no longer be checked against the code (construct outside the verifiable subset, or a contract clause that no longer binds): " + u.why}
		b, _ := json.MarshalIndent(rec, "", " ")
		os.WriteFile(path, b, 0o644)
		fmt.Printf("  obligation %s undischarged: %s\n", name, trunc(u.why, 300))
		fmt.Printf("VIOLATION property=%s replay=%s no-failing-input-found\n", prop, path)
		violations = append(violations, name)
		undis = append(undis, map[string]any{"obligation": name, "status": "unverifiable", "reason": u.why})
	}
	var assumptions []string
	assumptions = append(assumptions, generalAssumptions...)
	for _, n := range sortedKeys(notes) {
		assumptions = append(assumptions, n)
	}
	trusted := []string{}
	for _, n := range sortedKeys(notes) {
		if strings.HasPrefix(n, "assumed contract") || strings.HasPrefix(n, "havoc") || strings.HasPrefix(n, "trusted") {
			trusted = append(trusted, n)
		}
	}
	sort.Strings(funcs)
	ev := Evidence{PropertyID: prop, Tier: tier, Seed: seed, Level: "proof", WallS: time.Since(t0).Seconds(), Violations: len(violations),
		Assumptions: assumptions,
		Coverage: map[string]any{
			"obligations":              nObl,
			"discharged":               nDis,
			"checker_cmd":              fmt.Sprintf("/verif/bin/govc check --prop %s --tier %s", prop, tier),
			"trusted_base":             trusted,
			"functions_under_contract": funcs,
			"by_backend":               r.byBack,
			"solver_time_s":            r.solverT,
			"covers":                   nCover,
			"covers_sat":               nCoverSat,
			"known_findings_hit":       knownHit,
			"undischarged":             undis,
			"samples":                  samples,
			"bounded_parts":            []string{},
			"solver_timeout_s":         timeout,
		}}
	if lockMode {
		// the obligations are proved, the property itself (every schedule) is argued on paper from them
		ev.Level = "other"
		ev.Coverage["explanation"] = fmt.Sprintf("thread-modular lock discipline over the %d functions reachable from the query entry points: every access to a guarded location (rule cache, lazily compiled pattern, file of a file-backed list) is proved to happen with its mutex held, stores to the compiled pattern are write-once, every lock is released on every path, and the frames of the entry points allow only guarded or thread-local shared writes; %d non-trivial obligations, all discharged deductively; the step from these to 'every interleaving is race-free and returns the sequential answer' is a paper argument (no schedule quantifier in this family)", len(funcs), nDis)
		ev.Coverage["functions_checked"] = len(funcs)
	}
	if extra := boundedParts(w, prop, tier, seed, &ev, known); extra != nil {
		violations = append(violations, extra...)
		ev.Violations = len(violations)
	}
	ev.WallS = time.Since(t0).Seconds()
	b, _ := json.MarshalIndent(ev, "", " ")
	os.WriteFile(evPath, b, 0o644)
	nKnown := len(knownHit)
	if kh, ok := ev.Coverage["known_findings_hit"].([]string); ok {
		nKnown = len(kh)
	}
	fmt.Printf("%s: %d obligations, %d discharged, %d covers sat/%d, %d violations, %d known findings, %.1fs\n",
		prop, nObl, nDis, nCoverSat, nCover, len(violations), nKnown, time.Since(t0).Seconds())
	if len(harness) > 0 || vacuous || (nObl == 0 && ev.Coverage["bounded_parts"] == nil) {
		if nObl == 0 {
			fmt.Println("HARNESS-ERROR: zero obligations generated")
		}
		if len(violations) > 0 {
			return 1
		}
		return 2
	}
	if len(violations) > 0 {
		return 1
	}
	return 0
}

// boundedParts runs the bounded stand-ins registered for a property (none yet).
// boundedParts runs the bounded stand-in of a property whose deciding step is
// outside contract reach (the language of the regexp engine): the REAL
// functions are executed on every pattern / string of a small alphabet up to
// a stated length.  Labelled bounded; never counted among the proved obligations.
func boundedParts(w *World, prop, tier string, seed int, ev *Evidence, known []knownFinding) []string {
	if prop != "C03" && prop != "C05" {
		return nil
	}
	plen, ulen := 4, 5
	if tier == "thorough" {
		plen, ulen = 5, 5
	}
	dir, _ := os.MkdirTemp("", "govc-bnd-")
	defer os.RemoveAll(dir)
	ov := filepath.Join(dir, "ov.json")
	src := filepath.Join(verifDir(), "bounded", "zz_verif_bounded_test.go")
	os.WriteFile(ov, []byte(fmt.Sprintf(`{"Replace":{%q:%q}}`, filepath.Join(w.repo, "rules", "zz_verif_bounded_test.go"), src)), 0o644)
	cmd := exec.Command("go", "test", "-overlay", ov, "-vet=off", "-count=1", "-timeout", "3000s", "-run", "^TestZZVerifBounded$", "-v", "./rules")
	cmd.Dir = w.repo
	cmd.Env = append(os.Environ(), "GOFLAGS=-mod=mod", "GOPROXY=off", "GOSUMDB=off", "GOTOOLCHAIN=local",
		"VERIF_BOUND_PROP="+prop, fmt.Sprintf("VERIF_BOUND_PLEN=%d", plen), fmt.Sprintf("VERIF_BOUND_ULEN=%d", ulen))
	out, err := cmd.CombinedOutput()
	var viols []string
	kinds := map[string]int{}
	samples := map[string][]string{}
	evals, nontriv, summary := 0, 0, false
	for _, ln := range strings.Split(string(out), "\n") {
		switch {
		case strings.HasPrefix(ln, "BOUNDED-KIND "):
			var k string
			var n int
			for _, f := range strings.Fields(ln) {
				if strings.HasPrefix(f, "kind=") {
					k = f[5:]
				}
				if strings.HasPrefix(f, "count=") {
					fmt.Sscanf(f[6:], "%d", &n)
				}
			}
			kinds[k] = n
		case strings.HasPrefix(ln, "BOUNDED-VIOLATION "):
			for _, f := range strings.Fields(ln) {
				if strings.HasPrefix(f, "kind=") {
					samples[f[5:]] = append(samples[f[5:]], ln)
				}
			}
		case strings.HasPrefix(ln, "BOUNDED "):
			summary = true
			for _, f := range strings.Fields(ln) {
				if strings.HasPrefix(f, "evaluations=") {
					fmt.Sscanf(f[12:], "%d", &evals)
				}
				if strings.HasPrefix(f, "nontrivial_patterns=") {
					fmt.Sscanf(f[20:], "%d", &nontriv)
				}
			}
		}
	}
	if !summary {
		fmt.Printf("HARNESS-ERROR: bounded stand-in for %s did not complete: %v\n%s\n", prop, err, trunc(string(out), 2000))
		return []string{"bounded/" + prop + "/harness"}
	}
	var knownHit []string
	for _, k := range sortedKeys(kinds) {
		name := "bounded/" + prop + "/" + k
		isKnown := false
		for _, kf := range known {
			if kf.Prop == prop && kf.Obl == name {
				isKnown = true
				knownHit = append(knownHit, name)
				fmt.Printf("KNOWN-FINDING: property=%s %s\n", prop, strings.TrimSpace(strings.TrimPrefix(strings.TrimSpace(strings.TrimPrefix(kf.Text, "finding:")), "property="+prop)))
			}
		}
		if isKnown {
			continue
		}
		rdir := filepath.Join(verifDir(), "replays", prop)
		os.MkdirAll(rdir, 0o755)
		path := filepath.Join(rdir, sanitize(name)+".json")
		b, _ := json.MarshalIndent(map[string]any{"property": prop, "obligation": name, "kind": "bounded", "failing_inputs": samples[k], "count": kinds[k],
			"how_to_rerun": fmt.Sprintf("VERIF_BOUND_PROP=%s VERIF_BOUND_PLEN=%d VERIF_BOUND_ULEN=%d go test -overlay <ov mapping rules/zz_verif_bounded_test.go to /verif/bounded/zz_verif_bounded_test.go> -vet=off -run ^TestZZVerifBounded$ -v ./rules", prop, plen, ulen)}, "", " ")
		os.WriteFile(path, b, 0o644)
		fmt.Printf("  bounded check %s: %d failing inputs, e.g. %s\n", name, kinds[k], strings.Join(samples[k], " ; "))
		fmt.Printf("VIOLATION property=%s replay=%s\n", prop, path)
		viols = append(viols, name)
	}
	ev.Level = "exploration"
	ev.Coverage["bounded_parts"] = []string{fmt.Sprintf("bounded (NOT a proof): every basic pattern over {a b B . * ^ | /} up to length %d (with $match-case up to length %d) against every string over {a B . / :} up to length %d (patterns starting with || against 5 scheme/subdomain prefixes + every tail up to length %d); every pattern over the operator characters {a 2 { } + ? ( ) [ ] \\ .} up to length 3 against every string over them up to length 3%s; real NewNetworkRule / matchPattern / Match / regexp engine", plen, plen-1, ulen, ulen-2, map[bool]string{true: "; every regular-expression rule /re/ over {a b | . \\ d *} up to that length", false: ""}[prop == "C05"])}
	ev.Coverage["evaluations"] = evals
	ev.Coverage["distinct_nontrivial"] = nontriv
	ev.Coverage["rule"] = "exhaustive enumeration of patterns and strings up to the stated lengths; a pattern counts as non-trivial when the compiled matcher accepts some but not all of the strings tried (counted by the harness)"
	var ss []any
	for _, k := range sortedKeys(samples) {
		for _, x := range samples[k] {
			ss = append(ss, x)
		}
	}
	if len(ss) == 0 {
		ss = append(ss, fmt.Sprintf("pattern %q against %q ... (%d evaluations, no disagreement)", "||a^", "http://b.a/", evals))
	}
	ev.Coverage["samples"] = ss
	ev.Coverage["exhaustive"] = true
	if len(knownHit) > 0 {
		if old, ok := ev.Coverage["known_findings_hit"].([]string); ok {
			knownHit = append(old, knownHit...)
		}
		ev.Coverage["known_findings_hit"] = knownHit
	}
	return viols
}

func sanitize(s string) string {
	var sb strings.Builder
	for _, c := range s {
		switch {
		case c >= 'a' && c <= 'z', c >= 'A' && c <= 'Z', c >= '0' && c <= '9', c == '-', c == '_', c == '.':
			sb.WriteRune(c)
		default:
			sb.WriteRune('_')
		}
	}
	r := sb.String()
	if len(r) > 120 {
		r = r[:120]
	}
	return r
}

// writeReplay records a failed obligation; returns the file path and whether
// a counterexample was confirmed on the real code.
func writeReplay(w *World, prop string, x *Result) (string, bool) {
	dir := filepath.Join(verifDir(), "replays", prop)
	os.MkdirAll(dir, 0o755)
	path := filepath.Join(dir, sanitize(x.Obl.Name)+".json")
	rec := map[string]any{
		"property":   prop,
		"obligation": x.Obl.Name,
		"kind":       x.Obl.Kind,
		"function":   x.Obl.Func,
		"function_key": replayKey(x),
		"position":   x.Obl.Pos,
		"clause":     x.Obl.Src,
		"status":     x.Status,
		"solver":     x.Solver,
		"solver_output": x.Raw,
	}
	confirmed := false
	if x.Status == "failed" && x.Model != "" {
		rec["model"] = trunc(x.Model, 20000)
		ok, detail := tryReplay(w, x)
		rec["replay"] = detail
		confirmed = ok
	}
	b, _ := json.MarshalIndent(rec, "", " ")
	os.WriteFile(path, b, 0o644)
	return path, confirmed
}

// tryReplay is implemented in replay.go.

func replayKey(x *Result) string {
	if x.vcReplay != nil && x.vcReplay.fn != nil {
		return funcKey(x.vcReplay.fn)
	}
	return ""
}

// runReplayCmd re-runs a recorded counterexample against the current tree.
func runReplayCmd(repo, path string) int {
	b, err := os.ReadFile(path)
	if err != nil {
		fmt.Fprintln(os.Stderr, err)
		return 2
	}
	var rec struct {
		Obligation  string `json:"obligation"`
		Kind        string `json:"kind"`
		FunctionKey string `json:"function_key"`
		Replay      struct {
			Inputs    []*node `json:"inputs"`
			Predicted []*node `json:"predicted_results"`
			Status    string  `json:"status"`
		} `json:"replay"`
	}
	if err := json.Unmarshal(b, &rec); err != nil {
		fmt.Fprintln(os.Stderr, err)
		return 2
	}
	fmt.Printf("obligation: %s\nrecorded: %s\n", rec.Obligation, rec.Replay.Status)
	if rec.FunctionKey == "" || rec.Replay.Inputs == nil {
		fmt.Println("no concrete input recorded (no-failing-input-found); the file carries the solver output")
		return 1
	}
	w, err := LoadWorld(repo)
	if err != nil {
		fmt.Fprintln(os.Stderr, err)
		return 2
	}
	fn := w.findFunc(rec.FunctionKey)
	if fn == nil {
		fmt.Println("function not found:", rec.FunctionKey)
		return 2
	}
	dir, _ := os.MkdirTemp("", "govc-replay-")
	defer os.RemoveAll(dir)
	dyn := map[string]types.Type{}
	for _, t := range w.tagTypes {
		dyn[typeStr(t)] = t
	}
	out, err := runReplayTest(w, fn, rec.Replay.Inputs, dir, map[string]types.Type{})
	if err != nil {
		fmt.Println("replay failed to run:", err)
		return 2
	}
	ob, _ := json.Marshal(out)
	fmt.Println("observed now:", string(ob))
	if p, _ := out["panic"].(string); p != "" {
		fmt.Println("REPRODUCED: panic:", p)
		return 1
	}
	obs, _ := out["results"].([]any)
	same := len(obs) == len(rec.Replay.Predicted) && len(obs) > 0
	for k := range obs {
		if !same {
			break
		}
		pj, _ := json.Marshal(scalarView(rec.Replay.Predicted[k]))
		oj, _ := json.Marshal(obs[k])
		if string(pj) != string(oj) {
			same = false
		}
	}
	if same {
		fmt.Println("REPRODUCED: the function still returns the counterexample's result")
		return 1
	}
	fmt.Println("not reproduced on the current tree")
	return 0
}
