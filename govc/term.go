package main

// SMT term layer: sorts, terms, light simplification, SMT-LIB printing.

import (
	"fmt"
	"math/big"
	"sort"
	"strings"
)

type Sort string

const (
	SInt   Sort = "Int"
	SBool  Sort = "Bool"
	SStr   Sort = "Str"
	SSlice Sort = "Slice"
	SIface Sort = "Iface"
	SReal  Sort = "Real"
)

func BV(n int) Sort { return Sort(fmt.Sprintf("(_ BitVec %d)", n)) }

func (s Sort) BVWidth() int {
	var n int
	if _, err := fmt.Sscanf(string(s), "(_ BitVec %d)", &n); err == nil {
		return n
	}
	return 0
}

func ArrSort(k, v Sort) Sort { return Sort(fmt.Sprintf("(Array %s %s)", k, v)) }

// ArrParts splits "(Array K V)" into K and V.
func (s Sort) ArrParts() (Sort, Sort, bool) {
	str := string(s)
	if !strings.HasPrefix(str, "(Array ") {
		return "", "", false
	}
	body := str[len("(Array ") : len(str)-1]
	// split at top-level space
	depth := 0
	for i, c := range body {
		switch c {
		case '(':
			depth++
		case ')':
			depth--
		case ' ':
			if depth == 0 {
				return Sort(body[:i]), Sort(body[i+1:]), true
			}
		}
	}
	return "", "", false
}

type Binder struct {
	Name string
	Sort Sort
}

type Term struct {
	Op   string
	Args []*Term
	Sort Sort
	Vars []Binder  // forall / exists
	Pats [][]*Term // optional patterns
}

func (t *Term) String() string {
	var sb strings.Builder
	t.write(&sb)
	return sb.String()
}

func (t *Term) write(sb *strings.Builder) {
	switch t.Op {
	case "forall", "exists":
		sb.WriteString("(")
		sb.WriteString(t.Op)
		sb.WriteString(" (")
		for i, v := range t.Vars {
			if i > 0 {
				sb.WriteString(" ")
			}
			fmt.Fprintf(sb, "(%s %s)", v.Name, v.Sort)
		}
		sb.WriteString(") ")
		if len(t.Pats) > 0 {
			sb.WriteString("(! ")
		}
		t.Args[0].write(sb)
		for _, p := range t.Pats {
			sb.WriteString(" :pattern (")
			for i, pt := range p {
				if i > 0 {
					sb.WriteString(" ")
				}
				pt.write(sb)
			}
			sb.WriteString(")")
		}
		if len(t.Pats) > 0 {
			sb.WriteString(")")
		}
		sb.WriteString(")")
		return
	}
	if len(t.Args) == 0 {
		sb.WriteString(t.Op)
		return
	}
	sb.WriteString("(")
	sb.WriteString(t.Op)
	for _, a := range t.Args {
		sb.WriteString(" ")
		a.write(sb)
	}
	sb.WriteString(")")
}

// ---- constructors

func Sym(name string, s Sort) *Term { return &Term{Op: name, Sort: s} }

func App(op string, s Sort, args ...*Term) *Term { return &Term{Op: op, Args: args, Sort: s} }

var (
	True  = &Term{Op: "true", Sort: SBool}
	False = &Term{Op: "false", Sort: SBool}
)

func IntLit(n int64) *Term {
	if n < 0 {
		return &Term{Op: fmt.Sprintf("(- %d)", -n), Sort: SInt}
	}
	return &Term{Op: fmt.Sprintf("%d", n), Sort: SInt}
}

func BigIntLit(n *big.Int) *Term {
	if n.Sign() < 0 {
		return &Term{Op: fmt.Sprintf("(- %s)", new(big.Int).Neg(n).String()), Sort: SInt}
	}
	return &Term{Op: n.String(), Sort: SInt}
}

func (t *Term) IntVal() (int64, bool) {
	if t.Sort != SInt || len(t.Args) != 0 {
		return 0, false
	}
	var n int64
	if strings.HasPrefix(t.Op, "(- ") {
		if _, err := fmt.Sscanf(t.Op, "(- %d)", &n); err == nil {
			return -n, true
		}
		return 0, false
	}
	if len(t.Op) > 0 && t.Op[0] >= '0' && t.Op[0] <= '9' {
		if _, err := fmt.Sscanf(t.Op, "%d", &n); err == nil && fmt.Sprintf("%d", n) == t.Op {
			return n, true
		}
	}
	return 0, false
}

func BVLit(v *big.Int, w int) *Term {
	m := new(big.Int).Lsh(big.NewInt(1), uint(w))
	x := new(big.Int).Mod(v, m)
	if x.Sign() < 0 {
		x.Add(x, m)
	}
	return &Term{Op: fmt.Sprintf("(_ bv%s %d)", x.String(), w), Sort: BV(w)}
}

func BVLitU(v uint64, w int) *Term { return BVLit(new(big.Int).SetUint64(v), w) }

func (t *Term) BVVal() (*big.Int, bool) {
	if len(t.Args) != 0 || !strings.HasPrefix(t.Op, "(_ bv") {
		return nil, false
	}
	var s string
	var w int
	if _, err := fmt.Sscanf(t.Op, "(_ bv%s %d)", &s, &w); err != nil {
		return nil, false
	}
	v, ok := new(big.Int).SetString(s, 10)
	return v, ok
}

func Not(a *Term) *Term {
	switch {
	case a == True || a.Op == "true":
		return False
	case a == False || a.Op == "false":
		return True
	case a.Op == "not":
		return a.Args[0]
	}
	return App("not", SBool, a)
}

func And(as ...*Term) *Term {
	var out []*Term
	for _, a := range as {
		if a == nil || a.Op == "true" {
			continue
		}
		if a.Op == "false" {
			return False
		}
		if a.Op == "and" {
			out = append(out, a.Args...)
			continue
		}
		out = append(out, a)
	}
	switch len(out) {
	case 0:
		return True
	case 1:
		return out[0]
	}
	return App("and", SBool, out...)
}

func Or(as ...*Term) *Term {
	var out []*Term
	for _, a := range as {
		if a == nil || a.Op == "false" {
			continue
		}
		if a.Op == "true" {
			return True
		}
		if a.Op == "or" {
			out = append(out, a.Args...)
			continue
		}
		out = append(out, a)
	}
	switch len(out) {
	case 0:
		return False
	case 1:
		return out[0]
	}
	return App("or", SBool, out...)
}

func Implies(a, b *Term) *Term {
	if a.Op == "true" {
		return b
	}
	if a.Op == "false" || b.Op == "true" {
		return True
	}
	return App("=>", SBool, a, b)
}

// strLitHook recognises string literal terms (set by the World).
var strLitHook func(*Term) (string, bool)

func Eq(a, b *Term) *Term {
	if a.Sort != b.Sort {
		panic(fmt.Sprintf("Eq: sort mismatch %s:%s vs %s:%s", a, a.Sort, b, b.Sort))
	}
	if a == b || (len(a.Args) == 0 && len(b.Args) == 0 && a.Op == b.Op) {
		return True
	}
	if av, ok := a.IntVal(); ok {
		if bv, ok2 := b.IntVal(); ok2 {
			if av == bv {
				return True
			}
			return False
		}
	}
	if av, ok := a.BVVal(); ok {
		if bv, ok2 := b.BVVal(); ok2 {
			if av.Cmp(bv) == 0 {
				return True
			}
			return False
		}
	}
	if a.Op == "sv" && b.Op == "sv" && strLitHook != nil {
		// comparison with a literal: byte-wise, so that the bytes are known
		la, aok := strLitHook(a.Args[0])
		lb, bok := strLitHook(b.Args[0])
		switch {
		case aok && bok:
			if la == lb {
				return True
			}
			return False
		case bok:
			return strEqLit(a.Args[0], lb)
		case aok:
			return strEqLit(b.Args[0], la)
		}
	}
	if a.Sort == SBool {
		if a.Op == "true" {
			return b
		}
		if b.Op == "true" {
			return a
		}
		if a.Op == "false" {
			return Not(b)
		}
		if b.Op == "false" {
			return Not(a)
		}
	}
	return App("=", SBool, a, b)
}

func Ite(c, a, b *Term) *Term {
	if c.Op == "true" {
		return a
	}
	if c.Op == "false" {
		return b
	}
	if a == b {
		return a
	}
	if a.Sort != b.Sort {
		panic(fmt.Sprintf("Ite: sort mismatch %s:%s vs %s:%s", a, a.Sort, b, b.Sort))
	}
	if a.Sort == SBool {
		if a.Op == "true" && b.Op == "false" {
			return c
		}
		if a.Op == "false" && b.Op == "true" {
			return Not(c)
		}
	}
	return App("ite", a.Sort, c, a, b)
}

func Add(a, b *Term) *Term {
	if av, ok := a.IntVal(); ok {
		if bv, ok2 := b.IntVal(); ok2 {
			return IntLit(av + bv)
		}
		if av == 0 {
			return b
		}
	}
	if bv, ok := b.IntVal(); ok && bv == 0 {
		return a
	}
	// (x + c1) + c2  ->  x + (c1+c2)
	if bv, ok := b.IntVal(); ok && a.Op == "+" && len(a.Args) == 2 && a.Sort == SInt {
		if c1, ok2 := a.Args[1].IntVal(); ok2 {
			return Add(a.Args[0], IntLit(c1+bv))
		}
	}
	if bv, ok := b.IntVal(); ok && bv < 0 {
		return Sub(a, IntLit(-bv))
	}
	return App("+", SInt, a, b)
}

func Sub(a, b *Term) *Term {
	if bv, ok := b.IntVal(); ok {
		if av, ok2 := a.IntVal(); ok2 {
			return IntLit(av - bv)
		}
		if bv == 0 {
			return a
		}
		// (x + c1) - c2  ->  x + (c1-c2)
		if a.Op == "+" && len(a.Args) == 2 && a.Sort == SInt {
			if c1, ok2 := a.Args[1].IntVal(); ok2 {
				return Add(a.Args[0], IntLit(c1-bv))
			}
		}
		if a.Op == "-" && len(a.Args) == 2 && a.Sort == SInt {
			if c1, ok2 := a.Args[1].IntVal(); ok2 {
				return Sub(a.Args[0], IntLit(c1+bv))
			}
		}
	}
	return App("-", SInt, a, b)
}

func Le(a, b *Term) *Term { return cmpInt("<=", a, b) }
func Lt(a, b *Term) *Term { return cmpInt("<", a, b) }
func Ge(a, b *Term) *Term { return cmpInt(">=", a, b) }
func Gt(a, b *Term) *Term { return cmpInt(">", a, b) }

func cmpInt(op string, a, b *Term) *Term {
	if av, ok := a.IntVal(); ok {
		if bv, ok2 := b.IntVal(); ok2 {
			var r bool
			switch op {
			case "<=":
				r = av <= bv
			case "<":
				r = av < bv
			case ">=":
				r = av >= bv
			case ">":
				r = av > bv
			}
			if r {
				return True
			}
			return False
		}
	}
	return App(op, SBool, a, b)
}

func Select(arr, idx *Term) *Term {
	_, v, ok := arr.Sort.ArrParts()
	if !ok {
		panic("Select on non-array " + string(arr.Sort) + " " + arr.String())
	}
	// select(store(a,i,v), i) -> v  (syntactic)
	if arr.Op == "store" && len(arr.Args) == 3 && termEq(arr.Args[1], idx) {
		return arr.Args[2]
	}
	return App("select", v, arr, idx)
}

func Store(arr, idx, val *Term) *Term {
	_, v, ok := arr.Sort.ArrParts()
	if !ok {
		panic("Store on non-array")
	}
	if v != val.Sort {
		panic(fmt.Sprintf("Store: value sort %s into %s (%s)", val.Sort, arr.Sort, val))
	}
	return App("store", arr.Sort, arr, idx, val)
}

func termEq(a, b *Term) bool {
	if a == b {
		return true
	}
	if a.Op != b.Op || len(a.Args) != len(b.Args) || a.Sort != b.Sort || len(a.Vars) != 0 || len(b.Vars) != 0 {
		return false
	}
	for i := range a.Args {
		if !termEq(a.Args[i], b.Args[i]) {
			return false
		}
	}
	return true
}

// datatype helpers -----------------------------------------------------

func MkStr(arr, off, ln *Term) *Term { return App("mkstr", SStr, arr, off, ln) }
func StrArr(s *Term) *Term           { return sel("s.arr", "mkstr", 0, SInt, s) }
func StrOff(s *Term) *Term           { return sel("s.off", "mkstr", 1, SInt, s) }
func StrLen(s *Term) *Term           { return sel("s.len", "mkstr", 2, SInt, s) }

func MkSlice(arr, off, ln, cp *Term) *Term { return App("mkslice", SSlice, arr, off, ln, cp) }
func SlArr(s *Term) *Term                  { return sel("sl.arr", "mkslice", 0, SInt, s) }
func SlOff(s *Term) *Term                  { return sel("sl.off", "mkslice", 1, SInt, s) }
func SlLen(s *Term) *Term                  { return sel("sl.len", "mkslice", 2, SInt, s) }
func SlCap(s *Term) *Term                  { return sel("sl.cap", "mkslice", 3, SInt, s) }

func MkIface(tag, ref *Term) *Term { return App("mkiface", SIface, tag, ref) }
func IfTag(s *Term) *Term          { return sel("i.tag", "mkiface", 0, SInt, s) }
func IfRef(s *Term) *Term          { return sel("i.ref", "mkiface", 1, SInt, s) }

func sel(name, ctor string, k int, s Sort, t *Term) *Term {
	if t.Op == ctor && len(t.Args) > k {
		return t.Args[k]
	}
	if t.Op == "ite" {
		// push selectors through ite of constructors when both are constructors
		a, b := t.Args[1], t.Args[2]
		if a.Op == ctor && b.Op == ctor {
			return Ite(t.Args[0], a.Args[k], b.Args[k])
		}
	}
	return App(name, s, t)
}

// Idx is the absolute index of logical index i in a slice with offset off.
// It is an uninterpreted function with the axiom idx(o,i) = o+i so that
// quantifier patterns over elements contain no arithmetic.
func Idx(off, i *Term) *Term {
	if o, ok := off.IntVal(); ok {
		if k, ok2 := i.IntVal(); ok2 {
			return IntLit(o + k)
		}
	}
	return App("idx", SInt, off, i)
}

// CatStr is string concatenation: a string whose array is the uninterpreted
// function catarr of both operands (so equal operands give the same term).
func CatStr(a, b *Term) *Term {
	return MkStr(App("catarr", SInt, a, b), IntLit(0), Add(StrLen(a), StrLen(b)))
}

var NilSlice = MkSlice(IntLit(0), IntLit(0), IntLit(0), IntLit(0))
var EmptyStr = MkStr(IntLit(0), IntLit(0), IntLit(0))
var NilIface = MkIface(IntLit(0), IntLit(0))

func Forall(vars []Binder, body *Term, pats ...[]*Term) *Term {
	if body.Op == "true" {
		return True
	}
	if len(vars) == 0 {
		return body
	}
	return &Term{Op: "forall", Args: []*Term{body}, Sort: SBool, Vars: vars, Pats: pats}
}

func Exists(vars []Binder, body *Term) *Term {
	if body.Op == "false" {
		return False
	}
	if len(vars) == 0 {
		return body
	}
	return &Term{Op: "exists", Args: []*Term{body}, Sort: SBool, Vars: vars}
}

// Subst replaces free symbols by terms (capture is avoided by construction:
// bound variable names are globally unique).
func Subst(t *Term, m map[string]*Term) *Term {
	if len(m) == 0 {
		return t
	}
	return subst(t, m, map[*Term]*Term{})
}

func subst(t *Term, m map[string]*Term, memo map[*Term]*Term) *Term {
	if r, ok := memo[t]; ok {
		return r
	}
	var res *Term
	if len(t.Args) == 0 && len(t.Vars) == 0 {
		if r, ok := m[t.Op]; ok {
			res = r
		} else {
			res = t
		}
		memo[t] = res
		return res
	}
	changed := false
	args := make([]*Term, len(t.Args))
	for i, a := range t.Args {
		args[i] = subst(a, m, memo)
		if args[i] != a {
			changed = true
		}
	}
	var pats [][]*Term
	for _, p := range t.Pats {
		np := make([]*Term, len(p))
		for i, a := range p {
			np[i] = subst(a, m, memo)
			if np[i] != a {
				changed = true
			}
		}
		pats = append(pats, np)
	}
	if !changed {
		res = t
	} else {
		res = rebuild(t, args, pats)
	}
	memo[t] = res
	return res
}

// rebuild re-applies the simplifying constructors after substitution.
func rebuild(t *Term, args []*Term, pats [][]*Term) *Term {
	switch t.Op {
	case "and":
		return And(args...)
	case "or":
		return Or(args...)
	case "not":
		return Not(args[0])
	case "=>":
		return Implies(args[0], args[1])
	case "ite":
		return Ite(args[0], args[1], args[2])
	case "=":
		if len(args) == 2 {
			return Eq(args[0], args[1])
		}
	case "select":
		return Select(args[0], args[1])
	case "+":
		if len(args) == 2 && t.Sort == SInt {
			return Add(args[0], args[1])
		}
	case "-":
		if len(args) == 2 && t.Sort == SInt {
			return Sub(args[0], args[1])
		}
	case "<=", "<", ">=", ">":
		if len(args) == 2 && args[0].Sort == SInt {
			return cmpInt(t.Op, args[0], args[1])
		}
	case "idx":
		return Idx(args[0], args[1])
	case "s.arr":
		return StrArr(args[0])
	case "s.off":
		return StrOff(args[0])
	case "s.len":
		return StrLen(args[0])
	case "sl.arr":
		return SlArr(args[0])
	case "sl.off":
		return SlOff(args[0])
	case "sl.len":
		return SlLen(args[0])
	case "sl.cap":
		return SlCap(args[0])
	case "i.tag":
		return IfTag(args[0])
	case "i.ref":
		return IfRef(args[0])
	}
	return &Term{Op: t.Op, Args: args, Sort: t.Sort, Vars: t.Vars, Pats: pats}
}

// Walk visits every subterm once.
func Walk(t *Term, seen map[*Term]bool, f func(*Term)) {
	if seen[t] {
		return
	}
	seen[t] = true
	f(t)
	for _, a := range t.Args {
		Walk(a, seen, f)
	}
	for _, p := range t.Pats {
		for _, a := range p {
			Walk(a, seen, f)
		}
	}
}

// FreeSyms collects nullary symbol names (excluding bound variables and literals).
func FreeSyms(t *Term, out map[string]bool) {
	var rec func(t *Term, bound map[string]bool)
	seen := map[*Term]bool{}
	rec = func(t *Term, bound map[string]bool) {
		if len(t.Vars) == 0 && seen[t] {
			return
		}
		if len(t.Vars) > 0 {
			nb := map[string]bool{}
			for k := range bound {
				nb[k] = true
			}
			for _, v := range t.Vars {
				nb[v.Name] = true
			}
			for _, a := range t.Args {
				rec(a, nb)
			}
			for _, p := range t.Pats {
				for _, a := range p {
					rec(a, nb)
				}
			}
			return
		}
		if len(bound) == 0 {
			seen[t] = true
		}
		if len(t.Args) == 0 {
			if !bound[t.Op] {
				out[t.Op] = true
			}
			return
		}
		out["@"+t.Op] = true // function symbol use
		for _, a := range t.Args {
			rec(a, bound)
		}
	}
	rec(t, map[string]bool{})
}

func sortedKeys[V any](m map[string]V) []string {
	ks := make([]string, 0, len(m))
	for k := range m {
		ks = append(ks, k)
	}
	sort.Strings(ks)
	return ks
}

// smtName makes a string usable as an SMT-LIB simple symbol.
func smtName(s string) string {
	var sb strings.Builder
	for _, c := range s {
		switch {
		case c >= 'a' && c <= 'z', c >= 'A' && c <= 'Z', c >= '0' && c <= '9':
			sb.WriteRune(c)
		case strings.ContainsRune("_.!$%&*+-/<=>?@^~", c):
			sb.WriteRune(c)
		case c == '[':
			sb.WriteString("<")
		case c == ']':
			sb.WriteString(">")
		case c == '(' || c == ')' || c == ' ' || c == ',':
			sb.WriteString("_")
		default:
			fmt.Fprintf(&sb, "$%x", c)
		}
	}
	r := sb.String()
	if r == "" || (r[0] >= '0' && r[0] <= '9') {
		r = "_" + r
	}
	return r
}
