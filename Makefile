# Build the verifier from files on disk only (offline).
GOENV = GOFLAGS=-mod=vendor GOPROXY=off GOSUMDB=off GOTOOLCHAIN=local CGO_ENABLED=0

.PHONY: build clean selftest
build:
	mkdir -p /verif/bin /verif/evidence /verif/replays
	cd /verif/govc && $(GOENV) go build -o /verif/bin/govc .

clean:
	rm -rf /verif/bin /verif/.cache

# the verifier's own regression: every seeded property-breaking change must be reported (must-fail corpus,
# about two hours; needs a clean /repo working tree, which it modifies and restores entry by entry) and every
# semantics-preserving edit must verify (must-pass corpus, about fifteen minutes; works on a scratch worktree)
selftest: build
	/verif/tools/mustpass.sh
	/verif/tools/reseed.sh
