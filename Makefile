# Build the verifier from files on disk only (offline).
GOENV = GOFLAGS=-mod=vendor GOPROXY=off GOSUMDB=off GOTOOLCHAIN=local CGO_ENABLED=0

.PHONY: build clean selftest
build:
	mkdir -p /verif/bin /verif/evidence /verif/replays
	cd /verif/govc && $(GOENV) go build -o /verif/bin/govc .

clean:
	rm -rf /verif/bin /verif/.cache
